// The System trait of ruler declares `remove_file` / `remove_dir` under #[cfg(test)].
// A change to ruler may make them unconditional; MemSystem must then implement them.
// This probe reads the trait from /repo's working tree and sets a cfg per method.
use std::fs;

fn unconditional(src: &str, sig: &str) -> bool
{
    // find the declaration inside `pub trait System`; it is conditional iff the closest
    // preceding non-blank line is an attribute mentioning cfg(test)
    let start = match src.find("pub trait System") { Some(i) => i, None => return false };
    let body = &src[start..];
    let pos = match body.find(sig) { Some(i) => i, None => return false };
    let before: Vec<&str> = body[..pos].lines().collect();
    for l in before.iter().rev().skip(1)
    {
        let t = l.trim();
        if t.is_empty() { continue; }
        return !(t.starts_with("#[cfg(") && t.contains("test"));
    }
    true
}

fn main()
{
    println!("cargo:rerun-if-changed=/repo/src/system/mod.rs");
    println!("cargo:rustc-check-cfg=cfg(sys_remove_file)");
    println!("cargo:rustc-check-cfg=cfg(sys_remove_dir)");
    let src = fs::read_to_string("/repo/src/system/mod.rs").unwrap_or_default();
    if unconditional(&src, "fn remove_file(") { println!("cargo:rustc-cfg=sys_remove_file"); }
    if unconditional(&src, "fn remove_dir(") { println!("cargo:rustc-cfg=sys_remove_dir"); }
}
