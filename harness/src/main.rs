//! rvf — model-checking harness for 2-complex/ruler.
//!
//! Every module of ruler is included from /repo's *working tree* by absolute
//! `#[path]`, so `crate::…` paths inside ruler resolve unchanged and cargo rebuilds
//! this crate whenever a file under /repo/src changes.  `src/main.rs` of ruler
//! (the clap front end) is not included; it is covered by the engines that drive
//! the real binary (`realfs`, `serve`).
#![allow(dead_code)]
#![allow(unused_imports)]
#![allow(unexpected_cfgs)]

extern crate toml;
extern crate serde;
extern crate execute;

#[path = "/repo/src/blob.rs"]
mod blob;
#[path = "/repo/src/bundle.rs"]
mod bundle;
#[path = "/repo/src/build.rs"]
mod build;
#[path = "/repo/src/cache.rs"]
mod cache;
#[path = "/repo/src/directory.rs"]
mod directory;
#[path = "/repo/src/current.rs"]
mod current;
#[path = "/repo/src/history.rs"]
mod history;
#[path = "/repo/src/packet.rs"]
mod packet;
#[path = "/repo/src/printer.rs"]
mod printer;
#[path = "/repo/src/rule.rs"]
mod rule;
#[path = "/repo/src/server.rs"]
mod server;
#[path = "/repo/src/sort.rs"]
mod sort;
#[path = "/repo/src/system/mod.rs"]
mod system;
#[path = "/repo/src/ticket.rs"]
mod ticket;
#[path = "/repo/src/work.rs"]
mod work;
#[path = "/repo/src/downloader.rs"]
mod downloader;

// ---- harness ----
mod verif_shim;
mod refsha;
mod memsys;
mod sched;
mod model;
mod scen;
mod world;
mod report;
mod hist;
mod schedeng;
mod crash;
mod enum_sort;
mod enum_ident;
mod enum_parse;
mod enum_hash;
mod enum_state;
mod realbin;
mod watch;
mod cli;

fn main()
{
    std::process::exit(cli::main());
}
