//! Watchdog: a call into ruler that does not come back is a verdict, not a hung check.
//!
//! The enumeration engines call ruler's functions directly (sorter, parser, hashing, state
//! readers) and the history / schedule / crash engines run whole builds; a change that makes
//! one of them loop without ever reaching a scheduling point would otherwise block a worker
//! thread for ever.  Every worker announces the item it is about to hand to ruler
//! (`watch::item`); a monitor thread started by `watch::start` reports the first item that has
//! been in flight for longer than the limit as a violation of the property under check, writes
//! the evidence file and ends the process with exit code 1 (the stuck thread cannot be
//! joined).  Items normally take microseconds to milliseconds; the limit is tens of seconds.
use std::cell::RefCell;
use std::sync::atomic::{AtomicBool, AtomicU64, Ordering};
use std::sync::{Arc, Mutex};
use std::time::{Duration, Instant};

use serde_json::{json, Value};

use crate::report::{Report, Violation};

struct Slot
{
    /// milliseconds since `EPOCH` at which the current item started; 0 = idle
    since: AtomicU64,
    item: Mutex<(String, Value)>,
}

static SLOTS: Mutex<Vec<Arc<Slot>>> = Mutex::new(Vec::new());
static RUNNING: AtomicBool = AtomicBool::new(false);
static PAUSED: AtomicBool = AtomicBool::new(false);

fn epoch() -> Instant
{
    static EPOCH: std::sync::OnceLock<Instant> = std::sync::OnceLock::new();
    *EPOCH.get_or_init(Instant::now)
}

thread_local! {
    static MY: RefCell<Option<Arc<Slot>>> = RefCell::new(None);
}

fn my_slot() -> Arc<Slot>
{
    MY.with(|m|
    {
        let mut m = m.borrow_mut();
        if m.is_none()
        {
            let s = Arc::new(Slot { since: AtomicU64::new(0), item: Mutex::new((String::new(), Value::Null)) });
            SLOTS.lock().unwrap_or_else(|p| p.into_inner()).push(s.clone());
            *m = Some(s);
        }
        m.as_ref().unwrap().clone()
    })
}

pub struct Guard
{
    slot: Option<Arc<Slot>>,
}

impl Drop for Guard
{
    fn drop(&mut self)
    {
        if let Some(s) = &self.slot { s.since.store(0, Ordering::SeqCst); }
    }
}

/// Announce the item this thread is about to give to ruler.  `replay` is what a replay file needs
/// to run the same item again (engine-specific).  Cheap when the watchdog is not running.
pub fn item(desc: impl FnOnce() -> (String, Value)) -> Guard
{
    if !RUNNING.load(Ordering::Relaxed) { return Guard { slot: None }; }
    let s = my_slot();
    // nested announcement: the outer one (which knows more about how to replay) stays
    if s.since.load(Ordering::SeqCst) != 0 { return Guard { slot: None }; }
    {
        let mut g = s.item.lock().unwrap_or_else(|p| p.into_inner());
        *g = desc();
    }
    let now = epoch().elapsed().as_millis() as u64;
    s.since.store(now.max(1), Ordering::SeqCst);
    Guard { slot: Some(s) }
}

/// While a phase runs that legitimately takes long inside one item (none at present) the
/// monitor can be paused.
#[allow(dead_code)]
pub fn pause(p: bool)
{
    PAUSED.store(p, Ordering::SeqCst);
}

/// Start the monitor for this process.  `what` names, for the property, what it means that the
/// call does not return.
pub fn start(property: &str, tier: &str, limit: Duration)
{
    let _ = epoch();
    if RUNNING.swap(true, Ordering::SeqCst) { return; }
    let property = property.to_string();
    let tier = tier.to_string();
    std::thread::spawn(move ||
    {
        loop
        {
            std::thread::sleep(Duration::from_millis(500));
            if PAUSED.load(Ordering::SeqCst) { continue; }
            let now = epoch().elapsed().as_millis() as u64;
            let slots: Vec<Arc<Slot>> = SLOTS.lock().unwrap_or_else(|p| p.into_inner()).clone();
            for s in slots
            {
                let since = s.since.load(Ordering::SeqCst);
                if since != 0 && now.saturating_sub(since) > limit.as_millis() as u64
                {
                    // confirm: still the same item a moment later
                    std::thread::sleep(Duration::from_millis(200));
                    if s.since.load(Ordering::SeqCst) != since { continue; }
                    let (desc, replay) = s.item.lock().unwrap_or_else(|p| p.into_inner()).clone();
                    let mut rep = Report::new(&property, &tier);
                    rep.set("states", json!(0));
                    rep.set("transitions", json!(0));
                    rep.set("traces_validated_against_impl", json!(0));
                    rep.set("exhaustive", json!(false));
                    rep.set("rule", json!("the run was cut short by the watchdog: a call into ruler did not return"));
                    rep.push_sample(json!({"item_that_did_not_return": desc}));
                    rep.violation(Violation
                    {
                        property: property.clone(),
                        signature: format!("{}:watchdog:a call into ruler did not return within {} s", property, limit.as_secs()),
                        summary: format!("ruler did not return within {} s (no scheduling point reached, so this is a loop inside ruler, not a wait): {}", limit.as_secs(), desc),
                        replay,
                    });
                    let code = rep.finish();
                    std::process::exit(if code == 0 { 1 } else { code });
                }
            }
        }
    });
}

/// Run `f` on a helper thread and wait at most `limit` for it: used by the replay commands so
/// that replaying a non-terminating item ends with a verdict too.  None = did not return.
pub fn with_limit<T: Send + 'static>(limit: Duration, f: impl FnOnce() -> T + Send + 'static) -> Option<T>
{
    let (tx, rx) = std::sync::mpsc::channel();
    std::thread::Builder::new().stack_size(64 << 20).spawn(move || { let _ = tx.send(f()); }).ok()?;
    rx.recv_timeout(limit).ok()
}
