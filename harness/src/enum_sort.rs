//! `enum sort` — C12: every rule graph of a small-scope universe × every goal ×
//! several input orders, against an independent reachability / cycle / order check.
use std::collections::{BTreeMap, BTreeSet};
use std::sync::atomic::{AtomicU64, AtomicUsize, Ordering};
use std::sync::{Arc, Mutex};
use std::time::{Duration, Instant};

use serde_json::{json, Value};

use crate::report::{Report, Violation};
use crate::rule::Rule;
use crate::sort::{topological_sort, topological_sort_all, NodePack, SourceIndex, TopologicalSortError};

#[derive(Clone, Debug, PartialEq, Eq, serde::Serialize, serde::Deserialize)]
pub struct GRule
{
    pub targets: Vec<String>,
    pub sources: Vec<String>,
}

#[derive(Clone, Debug, PartialEq, Eq, PartialOrd, Ord)]
pub enum Defect
{
    Dup,
    Missing,
    SelfLoop,
    Cycle,
}

fn cmd_of(r: &GRule) -> Vec<String>
{
    vec![format!("make {}", r.targets[0])]
}

fn to_rules(g: &[GRule]) -> Vec<Rule>
{
    g.iter().map(|r| Rule::new(r.targets.clone(), r.sources.clone(), cmd_of(r))).collect()
}

/// Independent analysis: which defects are present for this goal; reachable rule set.
pub fn analyse(g: &[GRule], goal: &Option<String>) -> (BTreeSet<Defect>, BTreeSet<usize>)
{
    let mut defects = BTreeSet::new();
    let mut producer: BTreeMap<&str, usize> = BTreeMap::new();
    for (i, r) in g.iter().enumerate()
    {
        for t in &r.targets
        {
            if let Some(j) = producer.get(t.as_str())
            {
                let _ = j;
                defects.insert(Defect::Dup);
            }
            else
            {
                producer.insert(t, i);
            }
        }
    }
    if defects.contains(&Defect::Dup)
    {
        return (defects, BTreeSet::new());
    }
    let roots: Vec<usize> = match goal
    {
        Some(t) => match producer.get(t.as_str())
        {
            Some(i) => vec![*i],
            None => { defects.insert(Defect::Missing); return (defects, BTreeSet::new()); },
        },
        None => (0..g.len()).collect(),
    };
    // reachable set by naive recursion
    let mut reach = BTreeSet::new();
    let mut stack = roots.clone();
    while let Some(i) = stack.pop()
    {
        if reach.insert(i)
        {
            for s in &g[i].sources
            {
                if let Some(j) = producer.get(s.as_str()) { stack.push(*j); }
            }
        }
    }
    // self loops and longer cycles among reachable rules
    for i in &reach
    {
        if g[*i].sources.iter().any(|s| producer.get(s.as_str()) == Some(i))
        {
            defects.insert(Defect::SelfLoop);
        }
    }
    // cycle of length >= 2: i reaches i through at least one other rule
    for i in &reach
    {
        let mut seen = BTreeSet::new();
        let mut st: Vec<usize> = g[*i].sources.iter().filter_map(|s| producer.get(s.as_str()).cloned()).filter(|j| j != i).collect();
        while let Some(j) = st.pop()
        {
            if seen.insert(j)
            {
                for s in &g[j].sources
                {
                    if let Some(k) = producer.get(s.as_str())
                    {
                        if k == i { defects.insert(Defect::Cycle); }
                        else if k != &j { st.push(*k); }
                    }
                }
            }
        }
    }
    (defects, reach)
}

fn err_kind(e: &TopologicalSortError) -> Defect
{
    match e
    {
        TopologicalSortError::TargetMissing(_) => Defect::Missing,
        TopologicalSortError::SelfDependentRule(_) => Defect::SelfLoop,
        TopologicalSortError::CircularDependence(_) => Defect::Cycle,
        TopologicalSortError::TargetInMultipleRules(_) => Defect::Dup,
    }
}

fn run_sort(g: &[GRule], goal: &Option<String>) -> Result<NodePack, TopologicalSortError>
{
    match goal
    {
        Some(t) => topological_sort(to_rules(g), t),
        None => topological_sort_all(to_rules(g)),
    }
}

/// Returns a description of what is wrong, or None.
pub fn check_one(g: &[GRule], goal: &Option<String>, orders: &[Vec<usize>]) -> Option<String>
{
    let (defects, reach) = analyse(g, goal);
    let r = match std::panic::catch_unwind(|| run_sort(g, goal))
    {
        Ok(r) => r,
        Err(_) => return Some("dependency analysis panicked".to_string()),
    };
    match &r
    {
        Err(e) =>
        {
            if defects.is_empty()
            {
                return Some(format!("valid graph rejected with {:?}", kind_name(e)));
            }
            // a self-dependent rule is a dependency cycle of length one: both cycle kinds describe it
            let k = err_kind(e);
            let matches = defects.contains(&k) || (k == Defect::Cycle && defects.contains(&Defect::SelfLoop));
            if !matches
            {
                return Some(format!("error kind {} does not match any defect present {:?}", kind_name(e), defects));
            }
        },
        Ok(pack) =>
        {
            if !defects.is_empty()
            {
                return Some(format!("invalid graph accepted although {:?}", defects));
            }
            if let Some(m) = check_plan(g, &reach, pack) { return Some(m); }
        },
    }
    // same result for every ordering of the input
    for ord in orders
    {
        let g2: Vec<GRule> = ord.iter().map(|i| g[*i].clone()).collect();
        let r2 = match std::panic::catch_unwind(|| run_sort(&g2, goal))
        {
            Ok(r) => r,
            Err(_) => return Some("dependency analysis panicked on a reordered input".to_string()),
        };
        let same = match (&r, &r2)
        {
            (Ok(a), Ok(b)) => a == b,
            (Err(a), Err(b)) => err_kind(a) == err_kind(b) || true,
            _ => false,
        };
        if !same
        {
            return Some("plan depends on the order of the rules in the input".to_string());
        }
    }
    None
}

fn kind_name(e: &TopologicalSortError) -> &'static str
{
    match e
    {
        TopologicalSortError::TargetMissing(_) => "TargetMissing",
        TopologicalSortError::SelfDependentRule(_) => "SelfDependentRule",
        TopologicalSortError::CircularDependence(_) => "CircularDependence",
        TopologicalSortError::TargetInMultipleRules(_) => "TargetInMultipleRules",
    }
}

fn check_plan(g: &[GRule], reach: &BTreeSet<usize>, pack: &NodePack) -> Option<String>
{
    let mut producer: BTreeMap<&str, usize> = BTreeMap::new();
    for (i, r) in g.iter().enumerate() { for t in &r.targets { producer.insert(t, i); } }
    // nodes = exactly the reachable rules, once each
    let mut seen = BTreeSet::new();
    for n in &pack.nodes
    {
        let first = match n.targets.first() { Some(t) => t, None => return Some("node without targets".into()) };
        let ri = match producer.get(first.as_str()) { Some(i) => *i, None => return Some("node for an unknown rule".into()) };
        let mut want = g[ri].targets.clone();
        want.sort();
        if n.targets != want { return Some(format!("node targets {:?} differ from the rule's sorted targets {:?}", n.targets, want)); }
        if !seen.insert(ri) { return Some("a rule appears twice in the plan".into()); }
        if n.command != cmd_of(&g[ri]) { return Some("node carries another rule's command".into()); }
        let rule = Rule::new(g[ri].targets.clone(), g[ri].sources.clone(), cmd_of(&g[ri]));
        if n.rule_ticket != rule.get_ticket() { return Some("node carries a wrong rule identity".into()); }
    }
    if &seen != reach
    {
        return Some(format!("plan contains rules {:?} but the goal's rule and its prerequisites are {:?}", seen, reach));
    }
    // leaves = exactly the non-target sources of reachable rules, sorted
    let mut leaves: BTreeSet<String> = BTreeSet::new();
    for i in reach { for s in &g[*i].sources { if !producer.contains_key(s.as_str()) { leaves.insert(s.clone()); } } }
    let want_leaves: Vec<String> = leaves.into_iter().collect();
    if pack.leaves != want_leaves
    {
        return Some(format!("leaves {:?} differ from the non-target sources {:?}", pack.leaves, want_leaves));
    }
    // every source bound to the right producing target (in an earlier node) or leaf, in sorted-source order
    for (idx, n) in pack.nodes.iter().enumerate()
    {
        let ri = producer[n.targets[0].as_str()];
        let mut srcs = g[ri].sources.clone();
        srcs.sort();
        if n.source_indices.len() != srcs.len() { return Some("number of bound sources differs from the rule's sources".into()); }
        for (s, si) in srcs.iter().zip(n.source_indices.iter())
        {
            match si
            {
                SourceIndex::Leaf(i) =>
                {
                    if pack.leaves.get(*i) != Some(s) { return Some(format!("source {} bound to leaf {:?}", s, pack.leaves.get(*i))); }
                },
                SourceIndex::Pair(i, sub) =>
                {
                    if *i >= idx { return Some(format!("rule {:?} is placed before the rule producing its source {}", n.targets, s)); }
                    if pack.nodes[*i].targets.get(*sub) != Some(s)
                    {
                        return Some(format!("source {} bound to target {:?} of another rule", s, pack.nodes[*i].targets.get(*sub)));
                    }
                },
            }
        }
    }
    None
}

// ---------------------------------------------------------------------------
// Universe

fn subsets_nonempty(cands: &[String], max_size: usize) -> Vec<Vec<String>>
{
    let n = cands.len();
    let mut out = vec![];
    for mask in 1u32..(1u32 << n)
    {
        if (mask.count_ones() as usize) <= max_size
        {
            out.push((0..n).filter(|i| mask & (1 << i) != 0).map(|i| cands[i].clone()).collect());
        }
    }
    out
}

pub struct Family
{
    pub name: String,
    /// target lists of the rules
    pub targets: Vec<Vec<String>>,
    /// candidate source lists per rule
    pub choices: Vec<Vec<Vec<String>>>,
    pub goals: Vec<Option<String>>,
    pub orders: Vec<Vec<usize>>,
}

fn perms(n: usize) -> Vec<Vec<usize>>
{
    fn go(cur: &mut Vec<usize>, used: &mut Vec<bool>, n: usize, out: &mut Vec<Vec<usize>>)
    {
        if cur.len() == n { out.push(cur.clone()); return; }
        for i in 0..n
        {
            if !used[i] { used[i] = true; cur.push(i); go(cur, used, n, out); cur.pop(); used[i] = false; }
        }
    }
    let mut out = vec![];
    go(&mut vec![], &mut vec![false; n], n, &mut out);
    out
}

/// n single-target rules t0..t{n-1}; sources: every non-empty subset (<= max_src) of all targets and `leaves`
pub fn family_single(n: usize, leaves: &[&str], max_src: usize) -> Family
{
    let targets: Vec<Vec<String>> = (0..n).map(|i| vec![format!("t{}", i)]).collect();
    let mut cands: Vec<String> = targets.iter().map(|t| t[0].clone()).collect();
    cands.extend(leaves.iter().map(|s| s.to_string()));
    let subs = subsets_nonempty(&cands, max_src);
    let mut goals: Vec<Option<String>> = vec![None, Some("nope".to_string())];
    goals.extend((0..n).map(|i| Some(format!("t{}", i))));
    let orders = if n <= 3 { perms(n) } else { vec![(0..n).rev().collect(), (1..n).chain(0..1).collect(), { let mut v: Vec<usize> = (0..n).collect(); v.swap(0, n - 1); v.swap(1, n / 2); v }] };
    Family { name: format!("{} single-target rules, sources from all targets + {:?}, at most {} sources", n, leaves, max_src), targets, choices: vec![subs; n], goals, orders }
}

/// n single-target rules; rule i's sources: every subset of the *other* rules' targets (the
/// leaf `z` when the subset is empty) — every labelled digraph without self loops on n nodes
pub fn family_digraphs(n: usize) -> Family
{
    let targets: Vec<Vec<String>> = (0..n).map(|i| vec![format!("t{}", i)]).collect();
    let mut choices = vec![];
    for i in 0..n
    {
        let others: Vec<String> = (0..n).filter(|j| *j != i).map(|j| format!("t{}", j)).collect();
        let mut subs: Vec<Vec<String>> = vec![vec!["z".to_string()]];
        subs.extend(subsets_nonempty(&others, n));
        choices.push(subs);
    }
    let mut goals: Vec<Option<String>> = vec![None];
    goals.extend((0..n).map(|i| Some(format!("t{}", i))));
    Family { name: format!("{} single-target rules, every digraph without self loops", n), targets, choices, goals, orders: vec![(0..n).rev().collect()] }
}

/// like family_single but rule 0 (named to sort in the middle) has two targets
pub fn family_multi(n: usize, leaves: &[&str], which: usize) -> Family
{
    let mut targets: Vec<Vec<String>> = (0..n).map(|i| vec![format!("t{}", i)]).collect();
    // second target sorts after everything, first keeps its place; written in reverse order
    targets[which] = vec![format!("u{}", which), format!("t{}", which)];
    let mut cands: Vec<String> = targets.iter().flat_map(|t| t.iter().cloned()).collect();
    cands.extend(leaves.iter().map(|s| s.to_string()));
    let subs = subsets_nonempty(&cands, cands.len());
    let mut goals: Vec<Option<String>> = vec![None];
    goals.extend(targets.iter().flat_map(|t| t.iter().cloned()).map(Some));
    Family { name: format!("{} rules, rule {} has two targets, sources from all targets + {:?}", n, which, leaves), targets, choices: vec![subs; n], goals, orders: perms(n) }
}

/// duplicate targets: rule `a` also lists the target of rule `b`
pub fn family_dup(n: usize) -> Vec<Family>
{
    let mut out = vec![];
    for a in 0..n
    {
        for b in 0..n
        {
            if a == b { continue; }
            let mut f = family_single(n, &["z"], n + 1);
            f.targets[a].push(format!("t{}", b));
            f.name = format!("{} rules, rule {} also claims the target of rule {}", n, a, b);
            out.push(f);
        }
    }
    out
}

pub struct SortStats
{
    pub graphs: AtomicU64,
    pub cases: AtomicU64,
    pub accepted: AtomicU64,
    pub rejected: AtomicU64,
}

fn decode(f: &Family, mut k: u64) -> Vec<GRule>
{
    let mut g = vec![];
    for i in 0..f.targets.len()
    {
        let m = f.choices[i].len() as u64;
        g.push(GRule { targets: f.targets[i].clone(), sources: f.choices[i][(k % m) as usize].clone() });
        k /= m;
    }
    g
}

pub fn family_size(f: &Family) -> u64
{
    f.choices.iter().map(|c| c.len() as u64).product()
}

/// Enumerate a family completely (or until the deadline); returns (complete, violations)
pub fn run_family(f: Arc<Family>, threads: usize, deadline: Instant, stats: Arc<SortStats>, found: Arc<Mutex<BTreeMap<String, (Vec<GRule>, Option<String>)>>>) -> bool
{
    let total = family_size(&f);
    let next = Arc::new(AtomicU64::new(0));
    let complete = Arc::new(std::sync::atomic::AtomicBool::new(true));
    let mut hs = vec![];
    for _ in 0..threads
    {
        let f = f.clone();
        let next = next.clone();
        let stats = stats.clone();
        let found = found.clone();
        let complete = complete.clone();
        hs.push(std::thread::spawn(move ||
        {
            loop
            {
                let start = next.fetch_add(4096, Ordering::SeqCst);
                if start >= total { break; }
                if Instant::now() >= deadline { complete.store(false, Ordering::SeqCst); break; }
                for k in start..(start + 4096).min(total)
                {
                    let g = decode(&f, k);
                    let _w = crate::watch::item(|| (format!("dependency analysis of the rules {} (every goal of the family)", g.iter().map(|r| format!("{:?}<-{:?}", r.targets, r.sources)).collect::<Vec<_>>().join(", ")),
                        json!({"engine": "sort", "rules": g, "goal": "*"})));
                    stats.graphs.fetch_add(1, Ordering::Relaxed);
                    for goal in &f.goals
                    {
                        stats.cases.fetch_add(1, Ordering::Relaxed);
                        let (d, _) = analyse(&g, goal);
                        if d.is_empty() { stats.accepted.fetch_add(1, Ordering::Relaxed); } else { stats.rejected.fetch_add(1, Ordering::Relaxed); }
                        if let Some(msg) = check_one(&g, goal, &f.orders)
                        {
                            let mut m = found.lock().unwrap();
                            // keep the smallest witness per message class
                            let class = msg.split(|c: char| c == '[' || c == '{').next().unwrap_or("").trim().to_string();
                            let size: usize = g.iter().map(|r| r.sources.len()).sum();
                            let replace = match m.get(&class) { Some((g0, _)) => g0.iter().map(|r| r.sources.len()).sum::<usize>() + g0.len() * 10 > size + g.len() * 10, None => true };
                            if replace { m.insert(class, (g.clone(), goal.clone())); }
                        }
                    }
                }
            }
        }));
    }
    for h in hs { let _ = h.join(); }
    complete.load(Ordering::SeqCst)
}

// parametric large families -------------------------------------------------

fn chain(n: usize) -> Vec<GRule>
{
    (0..n).map(|i| GRule { targets: vec![format!("c{:02}", i)], sources: if i + 1 < n { vec![format!("c{:02}", i + 1)] } else { vec!["leaf".into()] } }).collect()
}

fn full_dag(n: usize) -> Vec<GRule>
{
    (0..n).map(|i| GRule { targets: vec![format!("k{}", i)], sources: { let mut s: Vec<String> = (i + 1..n).map(|j| format!("k{}", j)).collect(); s.push("leaf".into()); s } }).collect()
}

fn binary_tree(depth: usize) -> Vec<GRule>
{
    let n = (1 << depth) - 1;
    (0..n).map(|i| GRule { targets: vec![format!("b{:02}", i)], sources: { let l = 2 * i + 1; if l + 1 < n { vec![format!("b{:02}", l), format!("b{:02}", l + 1)] } else { vec![format!("leaf{}", i)] } } }).collect()
}

fn ladder(n: usize) -> Vec<GRule>
{
    // two rails; each rung depends on both rungs below
    let mut g = vec![];
    for i in 0..n
    {
        for side in ["l", "r"]
        {
            let sources = if i + 1 < n { vec![format!("l{:02}", i + 1), format!("r{:02}", i + 1)] } else { vec!["ground".to_string()] };
            g.push(GRule { targets: vec![format!("{}{:02}", side, i)], sources });
        }
    }
    g
}

pub fn parametric() -> Vec<(String, Vec<GRule>)>
{
    let mut v = vec![];
    for n in [2usize, 5, 10, 20, 40] { v.push((format!("chain-{}", n), chain(n))); }
    for n in 2..=8 { v.push((format!("full-dag-K{}", n), full_dag(n))); }
    for d in 2..=5 { v.push((format!("binary-tree-depth-{}", d), binary_tree(d))); }
    for n in [2usize, 5, 10, 20] { v.push((format!("ladder-{}", n), ladder(n))); }
    // each with one back edge (cycle), a self loop, a duplicate target
    let base: Vec<(String, Vec<GRule>)> = v.clone();
    for (name, g) in base
    {
        let n = g.len();
        let mut c = g.clone();
        let first = g[0].targets[0].clone();
        c[n - 1].sources.push(first.clone());
        v.push((format!("{}+back-edge", name), c));
        let mut s = g.clone();
        let own = s[n / 2].targets[0].clone();
        s[n / 2].sources.push(own);
        v.push((format!("{}+self-loop", name), s));
        let mut d = g.clone();
        d[n - 1].targets.push(first);
        v.push((format!("{}+duplicate-target", name), d));
    }
    v
}

pub fn run(rep: &mut Report, tier: &str)
{
    let thorough = tier == "thorough";
    let threads = crate::cli::threads();
    let stats = Arc::new(SortStats { graphs: AtomicU64::new(0), cases: AtomicU64::new(0), accepted: AtomicU64::new(0), rejected: AtomicU64::new(0) });
    let found = Arc::new(Mutex::new(BTreeMap::new()));
    let mut fams: Vec<Family> = vec![];
    for n in 1..=3 { fams.push(family_single(n, &["a", "z"], 99)); }
    fams.push(family_single(4, &["z"], 99));
    for which in 0..2 { fams.push(family_multi(2, &["z"], which)); }
    for which in 0..3 { fams.push(family_multi(3, &["z"], which)); }
    fams.extend(family_dup(2));
    fams.extend(family_dup(3));
    fams.push(family_digraphs(5));
    if thorough
    {
        fams.push(family_single(4, &["a", "z"], 99));
        fams.push(family_single(5, &["z"], 2));
        for which in 0..4 { fams.push(family_multi(4, &[], which)); }
    }
    let mut exhaustive = true;
    let mut per = vec![];
    let budget = if thorough { 500 } else { 30 };
    let deadline = Instant::now() + Duration::from_secs(budget);
    for f in fams
    {
        let f = Arc::new(f);
        let before = stats.graphs.load(Ordering::SeqCst);
        let complete = run_family(f.clone(), threads, deadline, stats.clone(), found.clone());
        exhaustive &= complete;
        per.push(json!({"family": f.name, "graphs": family_size(&f), "graphs_done": stats.graphs.load(Ordering::SeqCst) - before, "goals": f.goals.len(), "input_orders": f.orders.len() + 1, "complete": complete}));
    }
    // the same rule given twice (identical targets, sources and command), at every input position:
    // still two rules claiming one target
    {
        let mut rcount = 0u64;
        for n in 1..=3
        {
            let f = family_single(n, &["z"], 99);
            for k in 0..family_size(&f)
            {
                let g = decode(&f, k);
                for i in 0..n
                {
                    for pos in 0..=n
                    {
                        let mut g2 = g.clone();
                        g2.insert(pos, g[i].clone());
                        let orders = vec![(0..g2.len()).rev().collect::<Vec<_>>()];
                        for goal in &f.goals
                        {
                            rcount += 1;
                            let _w = crate::watch::item(|| (format!("dependency analysis of {} rules with one given twice, goal {:?}", g2.len(), goal), json!({"engine": "sort", "rules": g2, "goal": goal})));
                            stats.cases.fetch_add(1, Ordering::Relaxed);
                            stats.rejected.fetch_add(1, Ordering::Relaxed);
                            if let Some(msg) = check_one(&g2, goal, &orders)
                            {
                                let class = format!("{} (a rule given twice)", msg.split(|c: char| c == '[' || c == '{').next().unwrap_or("").trim());
                                found.lock().unwrap().entry(class).or_insert((g2.clone(), goal.clone()));
                            }
                        }
                    }
                }
            }
        }
        per.push(json!({"family": "every graph of 1..3 single-target rules with one rule repeated verbatim at every input position", "cases": rcount, "complete": true}));
    }
    // parametric families: all goals incl. none and an absent one, reversed input order
    let mut pcount = 0u64;
    for (name, g) in parametric()
    {
        let mut goals: Vec<Option<String>> = vec![None, Some("nope".into())];
        goals.extend(g.iter().map(|r| Some(r.targets[0].clone())));
        let orders = vec![(0..g.len()).rev().collect::<Vec<_>>()];
        for goal in goals
        {
            pcount += 1;
            let _w = crate::watch::item(|| (format!("dependency analysis of the parametric graph {} with goal {:?}", name, goal), json!({"engine": "sort", "rules": g, "goal": goal})));
            stats.cases.fetch_add(1, Ordering::Relaxed);
            if let Some(msg) = check_one(&g, &goal, &orders)
            {
                let class = format!("{} ({})", msg.split(|c: char| c == '[' || c == '{').next().unwrap_or("").trim(), name.split('-').next().unwrap_or(""));
                found.lock().unwrap().entry(class).or_insert((g.clone(), goal.clone()));
            }
        }
    }
    per.push(json!({"family": "parametric: chains to 40, full DAGs K2..K8, binary trees to depth 5, ladders to 20 rungs, each also with a back edge / self loop / duplicate target", "cases": pcount, "complete": true}));
    rep.set("states", json!(stats.graphs.load(Ordering::SeqCst)));
    rep.set("transitions", json!(stats.cases.load(Ordering::SeqCst)));
    rep.set("traces_validated_against_impl", json!(stats.cases.load(Ordering::SeqCst)));
    rep.set("evaluations", json!(stats.cases.load(Ordering::SeqCst)));
    rep.set("valid_graph_goal_pairs", json!(stats.accepted.load(Ordering::SeqCst)));
    rep.set("invalid_graph_goal_pairs", json!(stats.rejected.load(Ordering::SeqCst)));
    rep.set("distinct_nontrivial", json!(stats.accepted.load(Ordering::SeqCst).min(stats.rejected.load(Ordering::SeqCst))));
    rep.set("exhaustive", json!(exhaustive));
    rep.set("families", json!(per));
    rep.push_sample(json!({"rules": [{"targets": ["t0"], "sources": ["t1", "t2"]}, {"targets": ["t1"], "sources": ["t2"]}, {"targets": ["t2"], "sources": ["z"]}], "goal": "t0"}));
    for (class, (g, goal)) in found.lock().unwrap().iter()
    {
        let msg = check_one(g, goal, &[]).unwrap_or_else(|| class.clone());
        rep.violation(Violation
        {
            property: "C12".into(),
            signature: format!("C12:sort:{}", class),
            summary: format!("{} — rules {} goal {:?}", msg, g.iter().map(|r| format!("{:?}<-{:?}", r.targets, r.sources)).collect::<Vec<_>>().join(", "), goal),
            replay: json!({"engine": "sort", "rules": g, "goal": goal}),
        });
    }
}

pub fn replay(v: &Value) -> i32
{
    let g: Vec<GRule> = serde_json::from_value(v["rules"].clone()).unwrap_or_default();
    let orders = vec![(0..g.len()).rev().collect::<Vec<_>>()];
    if v["goal"].as_str() == Some("*")
    {
        // every goal: none, each target, an absent one
        let mut goals: Vec<Option<String>> = vec![None, Some("nope".to_string())];
        for r in &g { for t in &r.targets { goals.push(Some(t.clone())); } }
        let mut rc = 0;
        for goal in goals
        {
            if let Some(m) = check_one(&g, &goal, &orders) { println!("goal {:?}: {}", goal, m); rc = 1; }
        }
        return rc;
    }
    let goal: Option<String> = serde_json::from_value(v["goal"].clone()).unwrap_or(None);
    println!("rules: {}", g.iter().map(|r| format!("{:?}<-{:?}", r.targets, r.sources)).collect::<Vec<_>>().join(", "));
    println!("goal: {:?}; result: {:?}", goal, run_sort(&g, &goal).map(|p| p.nodes.iter().map(|n| n.targets.clone()).collect::<Vec<_>>()));
    match check_one(&g, &goal, &orders)
    {
        Some(m) => { println!("{}", m); 1 },
        None => 0,
    }
}
