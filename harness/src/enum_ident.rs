//! `enum ident` — C13: rule identity.  Every rule over a small string universe is
//! grouped by `Rule::get_ticket()` and by canonical form (set of targets, set of
//! sources, command lines in order); the two partitions must be identical — which is
//! equivalent to checking all pairs.
use std::collections::{BTreeMap, BTreeSet, HashMap};

use serde_json::{json, Value};

use crate::history::{History, RuleHistory};
use crate::memsys::{Cfg, ClockModel, Fs, MemSystem};
use crate::report::{Report, Violation};
use crate::rule::{self, Rule};

fn lists(sigma: &[&str], max_len: usize, allow_empty: bool, distinct: bool) -> Vec<Vec<String>>
{
    let mut out: Vec<Vec<String>> = vec![];
    if allow_empty { out.push(vec![]); }
    let mut cur: Vec<Vec<String>> = vec![vec![]];
    for _ in 0..max_len
    {
        let mut next = vec![];
        for c in &cur
        {
            for s in sigma
            {
                if distinct && c.iter().any(|x| x == s) { continue; }
                let mut n = c.clone();
                n.push(s.to_string());
                next.push(n);
            }
        }
        out.extend(next.iter().cloned());
        cur = next;
    }
    out
}

fn canon(r: &Rule) -> (Vec<String>, Vec<String>, Vec<String>)
{
    let mut t = r.targets.clone();
    t.sort();
    t.dedup();
    let mut s = r.sources.clone();
    s.sort();
    s.dedup();
    (t, s, r.command.clone())
}

fn render(r: &Rule) -> String
{
    let mut s = String::new();
    for t in &r.targets { s.push_str(t); s.push('\n'); }
    s.push_str(":\n");
    for t in &r.sources { s.push_str(t); s.push('\n'); }
    s.push_str(":\n");
    for t in &r.command { s.push_str(t); s.push('\n'); }
    s.push_str(":\n");
    s
}

pub fn run(rep: &mut Report, tier: &str)
{
    let thorough = tier == "thorough";
    // adversarial near-misses: a string moved across a section boundary, ':' and spaces inside
    // names, split / merged command lines, permuted lists
    // "a " (trailing blank): a different string from "a" that a tolerant line reader would merge with it
    let sigma: Vec<&str> = if thorough { vec!["a", "b", "a b", "a:", ":a", "a/b", "a ", ";", "\ta"] } else { vec!["a", "b", "a b", "a:", ":a", "a/b", "a "] };
    let path_sigma: Vec<&str> = sigma.iter().cloned().filter(|s| *s != ";" && !s.starts_with('\t')).collect();
    let long_sigma: Vec<&str> = path_sigma.iter().cloned().filter(|s| *s != "a ").collect();
    let ts = lists(&path_sigma, 2, false, true);
    let ss = lists(&path_sigma, 2, false, true);
    let cs = lists(&sigma, 3, true, false);
    let mut by_ticket: HashMap<String, (Vec<String>, Vec<String>, Vec<String>)> = HashMap::new();
    let mut by_canon: HashMap<(Vec<String>, Vec<String>, Vec<String>), String> = HashMap::new();
    let mut n = 0u64;
    let mut bad: BTreeMap<String, (Rule, Rule)> = BTreeMap::new();
    let mut first_of_canon: HashMap<(Vec<String>, Vec<String>, Vec<String>), Rule> = HashMap::new();
    let mut first_of_ticket: HashMap<String, Rule> = HashMap::new();
    for t in &ts
    {
        let _w = crate::watch::item(|| (format!("identity of the rules with targets {:?} (all source and command lists)", t), json!({"engine": "ident", "a": {"t": t, "s": ["a"], "c": []}, "b": {"t": t, "s": ["a"], "c": []}})));
        for s in &ss
        {
            for c in &cs
            {
                let r = Rule::new(t.clone(), s.clone(), c.clone());
                let tk = r.get_ticket().human_readable();
                let cn = canon(&r);
                n += 1;
                match by_ticket.get(&tk)
                {
                    Some(c0) if *c0 != cn =>
                    {
                        bad.entry("two different rules share one identity".into()).or_insert((first_of_ticket[&tk].clone(), r.clone()));
                    },
                    Some(_) => {},
                    None => { by_ticket.insert(tk.clone(), cn.clone()); first_of_ticket.insert(tk.clone(), r.clone()); },
                }
                match by_canon.get(&cn)
                {
                    Some(t0) if *t0 != tk =>
                    {
                        bad.entry("the same rule (up to order of target/source lines) gets two identities".into()).or_insert((first_of_canon[&cn].clone(), r.clone()));
                    },
                    Some(_) => {},
                    None => { by_canon.insert(cn.clone(), tk.clone()); first_of_canon.insert(cn, r); },
                }
            }
        }
    }
    // longer lists: every ordering of every set of <= 4 distinct targets / sources, with and without a
    // command; the identity as computed directly and as the build computes it (through the sorter,
    // which names the rule's history file) must both be functions of the canonical form alone
    let mut long_n = 0u64;
    {
        let tl = lists(&long_sigma, 4, false, true);
        let chunks: Vec<&[Vec<String>]> = tl.chunks((tl.len() + 15) / 16).collect();
        let results: Vec<(u64, Vec<(String, Rule, Rule)>)> = std::thread::scope(|sc|
        {
            let hs: Vec<_> = chunks.iter().map(|chunk|
            {
                let tl = &tl;
                sc.spawn(move ||
                {
                    let mut n = 0u64;
                    let mut bad: Vec<(String, Rule, Rule)> = vec![];
                    for t in chunk.iter()
                    {
                        let _w = crate::watch::item(|| (format!("identity (directly and through the sorter) of the rules with targets {:?}", t), json!({"engine": "ident", "a": {"t": t, "s": ["zz"], "c": []}, "b": {"t": t, "s": ["zz"], "c": []}})));
                        let mut t_sorted = t.clone();
                        t_sorted.sort();
                        for s in tl.iter()
                        {
                            let mut s_sorted = s.clone();
                            s_sorted.sort();
                            let disjoint = !t.iter().any(|x| s.contains(x));
                            for c in [vec![], vec!["a".to_string()]]
                            {
                                n += 1;
                                let r = Rule::new(t.clone(), s.clone(), c.clone());
                                let r0 = Rule::new(t_sorted.clone(), s_sorted.clone(), c.clone());
                                let want = r0.get_ticket();
                                if r.get_ticket() != want
                                {
                                    if bad.len() < 4 { bad.push(("the same rule (up to order of target/source lines) gets two identities".into(), r0.clone(), r.clone())); }
                                }
                                if disjoint && (t.len() >= 3 || s.len() >= 3)
                                {
                                    match std::panic::catch_unwind(|| crate::sort::topological_sort_all(vec![r.clone()]))
                                    {
                                        Ok(Ok(pack)) =>
                                        {
                                            if pack.nodes.len() != 1 || pack.nodes[0].rule_ticket != want
                                            {
                                                if bad.len() < 4 { bad.push(("the identity the build uses for a rule differs from the identity of the same rule with its lines in order".into(), r0.clone(), r.clone())); }
                                            }
                                        },
                                        _ => { if bad.len() < 4 { bad.push(("a single well-formed rule is rejected by the dependency analysis".into(), r0.clone(), r.clone())); } },
                                    }
                                }
                            }
                        }
                    }
                    (n, bad)
                })
            }).collect();
            hs.into_iter().map(|h| h.join().unwrap_or((0, vec![]))).collect()
        });
        for (n1, b) in results
        {
            long_n += n1;
            for (what, a, r) in b { bad.entry(what).or_insert((a, r)); }
        }
    }
    // through the parser: permuted target / source lines keep the identity; history file is named by it
    let mut parsed = 0u64;
    let sys = MemSystem::new({ let mut fs = Fs::new(); fs.put(".ruler/history/.keep", crate::memsys::bytes(""), 1, None); fs }, Cfg::plain(ClockModel::Strict));
    for t in &ts
    {
        for s in &ss
        {
            for c in cs.iter().filter(|c| c.len() <= 1)
            {
                let r = Rule::new(t.clone(), s.clone(), c.clone());
                let mut rev = r.clone();
                rev.targets.reverse();
                rev.sources.reverse();
                let _w = crate::watch::item(|| (format!("parsing the rule {:?}", render(&r)), json!({"engine": "parse", "text": render(&r)})));
                let p1 = rule::parse("f".into(), render(&r));
                let p2 = rule::parse("f".into(), render(&rev));
                parsed += 2;
                match (p1, p2)
                {
                    (Ok(a), Ok(b)) if a.len() == 1 && b.len() == 1 =>
                    {
                        if a[0].get_ticket() != b[0].get_ticket() || a[0].get_ticket() != r.get_ticket()
                        {
                            bad.entry("re-ordering target/source lines in the rules file changes the identity".into()).or_insert((r.clone(), rev.clone()));
                        }
                        if canon(&a[0]) != canon(&r)
                        {
                            bad.entry("the parsed rule differs from the written one".into()).or_insert((r.clone(), a[0].clone()));
                        }
                    },
                    (a, _) =>
                    {
                        // strings were chosen to be parser-producible
                        if c.iter().all(|l| l != ":" && !l.is_empty())
                        {
                            bad.entry(format!("a well-formed single rule did not parse to one rule: {:?}", a.map(|v| v.len()))).or_insert((r.clone(), rev.clone()));
                        }
                    },
                }
            }
        }
    }
    // history file name == identity
    let mut named = 0u64;
    for (tk, r) in first_of_ticket.iter().take(2000)
    {
        let mut h = History::new(sys.clone(), ".ruler/history");
        let _ = h.write_rule_history(r.get_ticket(), RuleHistory::new());
        named += 1;
        if !sys.with(|i| i.fs.is_file(&format!(".ruler/history/{}", tk)))
        {
            bad.entry("the rule history file is not named after the rule identity".into()).or_insert((r.clone(), r.clone()));
        }
    }
    rep.set("states", json!(by_canon.len()));
    rep.set("transitions", json!(n));
    rep.set("traces_validated_against_impl", json!(n + parsed + named + long_n));
    rep.set("evaluations", json!(n));
    rep.set("distinct_identities", json!(by_ticket.len()));
    rep.set("distinct_canonical_forms", json!(by_canon.len()));
    rep.set("distinct_nontrivial", json!(by_canon.len()));
    rep.set("pairs_decided", json!((n as u128 * (n as u128 - 1) / 2).to_string()));
    rep.set("rules_through_parser", json!(parsed));
    rep.set("orderings_of_up_to_4_targets_x_4_sources", json!(long_n));
    rep.set("history_files_named", json!(named));
    rep.set("exhaustive", json!(true));
    rep.set("rule", json!("every rule (T,S,C): T,S non-empty lists of <=2 distinct strings in both orders, C a list of 0..3 strings, over the stated alphabet; partition by ticket must equal partition by (set T, set S, C); plus every ordering of every <=4-element target and source list (with and without a command) against the identity of the sorted spelling, directly and through the sorter"));
    rep.set("alphabet", json!(sigma));
    rep.push_sample(json!({"targets": ["a", "a b"], "sources": ["a:"], "command": ["a", ":a"]}));
    rep.push_sample(json!({"targets": ["a"], "sources": ["b", "a/b"], "command": []}));
    for (what, (a, b)) in bad
    {
        rep.violation(Violation
        {
            property: "C13".into(),
            signature: format!("C13:ident:{}", what),
            summary: format!("{}: {:?} / {:?}", what, a, b),
            replay: json!({"engine": "ident", "a": {"t": a.targets, "s": a.sources, "c": a.command}, "b": {"t": b.targets, "s": b.sources, "c": b.command}}),
        });
    }
}

pub fn replay(v: &Value) -> i32
{
    let get = |x: &Value| -> Rule
    {
        Rule::new(serde_json::from_value(x["t"].clone()).unwrap_or_default(), serde_json::from_value(x["s"].clone()).unwrap_or_default(), serde_json::from_value(x["c"].clone()).unwrap_or_default())
    };
    let a = get(&v["a"]);
    let b = get(&v["b"]);
    let same_id = a.get_ticket() == b.get_ticket();
    let same_rule = canon(&a) == canon(&b);
    println!("a = {:?}\nb = {:?}\nsame identity: {}; same rule up to order of targets/sources: {}", a, b, same_id, same_rule);
    if same_id != same_rule { 1 } else { 0 }
}
