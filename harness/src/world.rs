//! A World is one workspace (an `Fs`) plus the scenario it belongs to; this module
//! applies user actions to it and runs the *real* `build()` / `clean()` on it.
use std::collections::{BTreeMap, BTreeSet, HashMap};
use std::sync::Arc;

use serde::{Deserialize, Serialize};
use termcolor::Color;

use crate::build::{self, BuildError, BuildParams};
use crate::memsys::{bytes, Bytes, Cfg, ClockModel, CmdMonitor, Fs, Log, MemSystem, Node};
use crate::model::{render_rules, Graph, RuleSet};
use crate::printer::Printer;
use crate::refsha;
use crate::work::WorkError;

pub const RULES_FILE: &str = "build.rules";
pub const RULER_DIR: &str = ".ruler";
pub const CACHE_DIR: &str = ".ruler/cache";
pub const HISTORY_DIR: &str = ".ruler/history";
pub const TABLE_FILE: &str = ".ruler/current_file_states";

// ---------------------------------------------------------------------------
// Verdicts (a cloneable, comparable summary of ruler's error values)

#[derive(Clone, Debug, PartialEq, Eq, PartialOrd, Ord, Hash, Serialize, Deserialize)]
pub enum WErr
{
    FileNotFound(String),
    TargetFileNotGenerated(String),
    CommandExecutedButErrored,
    Contradiction(Vec<String>),
    Other(String),
}

#[derive(Clone, Debug, PartialEq, Eq, PartialOrd, Ord, Hash, Serialize, Deserialize)]
pub enum Verdict
{
    Ok,
    /// sorted multiset
    WorkErrors(Vec<WErr>),
    /// any other BuildError (Display text)
    Other(String),
}

fn summarize_work_error(e: &WorkError) -> WErr
{
    match e
    {
        WorkError::FileNotFound(p) => WErr::FileNotFound(p.clone()),
        WorkError::TargetFileNotGenerated(p) => WErr::TargetFileNotGenerated(p.clone()),
        WorkError::CommandExecutedButErrored => WErr::CommandExecutedButErrored,
        WorkError::Contradiction(ps) => WErr::Contradiction(ps.clone()),
        other => WErr::Other(format!("{:?}", other)),
    }
}

pub fn summarize(r: &Result<(), BuildError>) -> Verdict
{
    match r
    {
        Ok(()) => Verdict::Ok,
        Err(BuildError::WorkErrors(es)) =>
        {
            let mut v: Vec<WErr> = es.iter().map(summarize_work_error).collect();
            v.sort();
            Verdict::WorkErrors(v)
        },
        Err(e) => Verdict::Other(format!("{:?}", e)),
    }
}

// ---------------------------------------------------------------------------
// Recording printer (C20)

#[derive(Clone, Debug, PartialEq, Eq)]
pub enum PrintRec
{
    Banner(String, String),
    Print(String),
    Error(String),
}

#[derive(Default)]
pub struct RecPrinter
{
    pub recs: Vec<PrintRec>,
}

impl Printer for RecPrinter
{
    fn print_single_banner_line(&mut self, banner_text: &str, _banner_color: Color, path: &str)
    {
        self.recs.push(PrintRec::Banner(banner_text.trim().to_string(), path.to_string()));
    }

    fn print(&mut self, text: &str)
    {
        self.recs.push(PrintRec::Print(text.to_string()));
    }

    fn error(&mut self, text: &str)
    {
        self.recs.push(PrintRec::Error(text.to_string()));
    }
}

// ---------------------------------------------------------------------------
// Running the real code

#[derive(Clone)]
pub struct RunCfg
{
    pub clock: ClockModel,
    pub yields: bool,
    pub shared: Arc<BTreeSet<String>>,
    pub snapshots: bool,
    pub track_access: bool,
    pub monitor: Option<CmdMonitor>,
    /// make the caller's look at the file system an operation dependent with everything
    pub observe: bool,
}

impl RunCfg
{
    pub fn serial(clock: ClockModel) -> RunCfg
    {
        RunCfg { clock, yields: false, shared: Arc::new(BTreeSet::new()), snapshots: false, track_access: false, monitor: None, observe: true }
    }
}

pub struct RunResult
{
    pub verdict: Verdict,
    /// what the user would read: the error value formatted with Display ("" on success)
    pub error_text: String,
    pub log: Log,
    pub prints: Vec<PrintRec>,
    pub fs: Fs,
}

fn mem_cfg(rc: &RunCfg) -> Cfg
{
    let mut c = Cfg::plain(rc.clock);
    c.yields = rc.yields;
    c.shared = rc.shared.clone();
    c.snapshots = rc.snapshots;
    c.track_access = rc.track_access;
    c.cmd_monitor = rc.monitor.clone();
    c
}

/// One invocation of the real `build()` on (a clone of) `fs`.  Must be called inside a
/// controlled execution (`crate::sched`).  The clock advances once before the
/// invocation (a ruler invocation is an action of its own).
pub fn run_build(fs: &Fs, rc: &RunCfg, goal: &Option<String>) -> RunResult
{
    run_build_in(fs, rc, goal, RULER_DIR)
}

/// `run_build` with the ruler directory given explicitly (the `--directory` option)
pub fn run_build_in(fs: &Fs, rc: &RunCfg, goal: &Option<String>, ruler_dir: &str) -> RunResult
{
    run_build_with(fs, rc, goal, ruler_dir, vec![RULES_FILE.to_string()])
}

/// ... and with the list of rules files given explicitly (several `--rules` options)
pub fn run_build_with(fs: &Fs, rc: &RunCfg, goal: &Option<String>, ruler_dir: &str, rules_files: Vec<String>) -> RunResult
{
    let _w = crate::watch::item(|| (format!("build({}) on a state reached by the harness (no replayable history recorded at this call site)", goal.clone().unwrap_or_default()), serde_json::json!({"engine": "unreplayable"})));
    let mut fs = fs.clone();
    fs.tick();
    let sys = MemSystem::new(fs, mem_cfg(rc));
    let mut printer = RecPrinter::default();
    let params = BuildParams::from_all(ruler_dir.to_string(), rules_files, None, goal.clone());
    let r = build::build(sys.clone(), &mut printer, params);
    observe_point(rc);
    let verdict = summarize(&r);
    let error_text = match &r { Ok(()) => String::new(), Err(e) => format!("{}", e) };
    drop(r);
    let log = sys.take_log();
    let mut fs = sys.snapshot();
    fs.tick();
    RunResult { verdict, error_text, log, prints: printer.recs, fs }
}

/// The instant at which the caller looks at the file system (in reality: the process exits).
/// Normally every worker has been joined by then.  When ruler returns early with workers
/// still running (e.g. an unreadable history file found while spawning), what the caller
/// sees depends on how far they got, so the observation is an operation of its own that is
/// dependent with everything.
fn observe_point(rc: &RunCfg)
{
    if rc.observe && rc.yields && crate::sched::in_execution()
    {
        crate::sched::declare(crate::sched::OpDesc::Unknown);
        shuttle::thread::yield_now();
    }
}

pub fn run_clean(fs: &Fs, rc: &RunCfg, goal: &Option<String>) -> RunResult
{
    run_clean_in(fs, rc, goal, RULER_DIR)
}

pub fn run_clean_in(fs: &Fs, rc: &RunCfg, goal: &Option<String>, ruler_dir: &str) -> RunResult
{
    let _w = crate::watch::item(|| (format!("clean({}) on a state reached by the harness (no replayable history recorded at this call site)", goal.clone().unwrap_or_default()), serde_json::json!({"engine": "unreplayable"})));
    let mut fs = fs.clone();
    fs.tick();
    let sys = MemSystem::new(fs, mem_cfg(rc));
    let r = build::clean(sys.clone(), ruler_dir, vec![RULES_FILE.to_string()], goal.clone());
    observe_point(rc);
    let verdict = summarize(&r);
    let error_text = match &r { Ok(()) => String::new(), Err(e) => format!("{}", e) };
    drop(r);
    let log = sys.take_log();
    let mut fs = sys.snapshot();
    fs.tick();
    RunResult { verdict, error_text, log, prints: vec![], fs }
}

// ---------------------------------------------------------------------------
// User actions

pub fn user_write(fs: &mut Fs, path: &str, data: Bytes)
{
    let t = fs.tick();
    fs.put(path, data, t, None);
    fs.tick();
}

pub fn user_write_exec(fs: &mut Fs, path: &str, data: Bytes, exec: bool)
{
    let t = fs.tick();
    fs.put(path, data, t, Some(exec));
    fs.tick();
}

pub fn user_remove(fs: &mut Fs, path: &str)
{
    fs.tick();
    fs.remove(path);
}

pub fn user_remove_tree(fs: &mut Fs, path: &str)
{
    fs.tick();
    fs.remove_tree(path);
}

pub fn install_rules(fs: &mut Fs, rules: &RuleSet)
{
    user_write(fs, RULES_FILE, bytes(&render_rules(rules)));
}

pub fn install_rules_spelled(fs: &mut Fs, rules: &RuleSet, flat: bool)
{
    user_write(fs, RULES_FILE, bytes(&crate::model::render_rules_spelled(rules, flat)));
}

// ---------------------------------------------------------------------------
// Reading ruler's persistent state through mirror types (bincode is positional)

#[derive(Serialize, Deserialize, Clone, Debug, PartialEq, Eq, Hash, PartialOrd, Ord)]
pub struct MTicket
{
    pub sha: [u8; 32],
}

#[derive(Serialize, Deserialize, Clone, Debug, PartialEq, Eq, PartialOrd, Ord)]
pub struct MFileState
{
    pub ticket: MTicket,
    pub timestamp: u64,
    pub executable: bool,
}

#[derive(Serialize, Deserialize, Clone, Debug, PartialEq, Eq, PartialOrd, Ord)]
pub struct MFileStateVec
{
    pub infos: Vec<MFileState>,
}

#[derive(Serialize, Deserialize, Clone, Debug, PartialEq, Eq)]
pub struct MRuleHistory
{
    pub source_to_targets: HashMap<MTicket, MFileStateVec>,
}

#[derive(Serialize, Deserialize, Clone, Debug, PartialEq, Eq)]
pub struct MTable
{
    pub file_states: HashMap<String, MFileState>,
}

pub type DecodedHistory = BTreeMap<String, Option<BTreeMap<[u8; 32], Vec<[u8; 32]>>>>;

/// history file name -> (sources hash -> target hashes), None = undecodable
pub fn decode_history(fs: &Fs) -> DecodedHistory
{
    let mut out = BTreeMap::new();
    for (path, f) in fs.files_under(HISTORY_DIR)
    {
        let name = path[HISTORY_DIR.len() + 1..].to_string();
        let dec: Option<MRuleHistory> = bincode::deserialize(&f.data).ok();
        out.insert(name, dec.map(|h| h.source_to_targets.into_iter()
            .map(|(k, v)| (k.sha, v.infos.into_iter().map(|i| i.ticket.sha).collect())).collect()));
    }
    out
}

/// None = no table file; Some(None) = undecodable
pub fn decode_table(fs: &Fs) -> Option<Option<BTreeMap<String, MFileState>>>
{
    let f = fs.file(TABLE_FILE)?;
    let dec: Option<MTable> = bincode::deserialize(&f.data).ok();
    Some(dec.map(|t| t.file_states.into_iter().collect()))
}

// ---------------------------------------------------------------------------
// Canonical state key (DESIGN 2.6)

/// Canonical, order-independent digest of everything ruler can observe in `fs`.
/// mtimes are replaced by their rank among all timestamps in the state; state files
/// are compared decoded (HashMap serialisation order is random and unobservable).
pub fn is_state_file(p: &str) -> bool
{
    p == TABLE_FILE || p.starts_with(".ruler/history/") || p.starts_with(".ruler/current_file_states")
}

pub fn canon_key(fs: &Fs, extra: &[u8]) -> [u8; 16]
{
    let table = decode_table(fs);
    // Timestamps are only ever compared for equality (a file's mtime against a remembered
    // one), and every future write gets a timestamp newer than all existing ones, so only
    // the *partition* of the timestamps into equal classes is observable.  Canonical
    // numbering: first occurrence in path order (files, then table entries).
    let mut rank: BTreeMap<u64, u32> = BTreeMap::new();
    for (p, n) in fs.map.iter()
    {
        // the modification times of ruler's own state files are not observable (ruler reads their
        // content only): leaving them out keeps the key a function of the observable state
        if is_state_file(p) { continue; }
        if let Node::File(f) = n
        {
            let next = rank.len() as u32;
            rank.entry(crate::memsys::stamp_micros(f.mtime)).or_insert(next);
        }
    }
    if let Some(Some(t)) = &table
    {
        for (_p, st) in t.iter()
        {
            let next = rank.len() as u32;
            rank.entry(st.timestamp).or_insert(next);
        }
    }
    let mut h = refsha::Sha256::new();
    let mut put = |b: &[u8]| { h.update(&(b.len() as u32).to_le_bytes()); h.update(b); };
    for (p, n) in fs.map.iter()
    {
        if p == TABLE_FILE || p.starts_with(".ruler/history/")
        {
            // a leftover temporary file is observable by its presence (its name is hashed), not by its date
            if p.ends_with(".tmp") { put(p.as_bytes()); put(b"T"); }
            continue;
        }
        if is_state_file(p) { put(p.as_bytes()); put(b"T"); continue; }
        put(p.as_bytes());
        match n
        {
            Node::Dir => put(b"D"),
            Node::File(f) =>
            {
                put(b"F");
                put(&f.data);
                put(&rank[&crate::memsys::stamp_micros(f.mtime)].to_le_bytes());
                put(&[f.exec as u8]);
            },
        }
    }
    put(b"#history");
    for (name, dec) in decode_history(fs)
    {
        put(name.as_bytes());
        match dec
        {
            None => put(b"undecodable"),
            Some(m) =>
            {
                for (k, v) in m
                {
                    put(&k);
                    for t in v { put(&t); }
                    put(b";");
                }
            },
        }
    }
    put(b"#table");
    match table
    {
        None => put(b"none"),
        Some(None) => put(b"undecodable"),
        Some(Some(t)) =>
        {
            for (p, st) in t
            {
                put(p.as_bytes());
                put(&st.ticket.sha);
                put(&rank[&st.timestamp].to_le_bytes());
                put(&[st.executable as u8]);
            }
        },
    }
    put(b"#extra");
    put(extra);
    let d = h.finish();
    let mut k = [0u8; 16];
    k.copy_from_slice(&d[..16]);
    k
}

// ---------------------------------------------------------------------------
// Small helpers used by several oracles

/// distinct contents at the given paths and in the cache
pub fn content_set(fs: &Fs, paths: &BTreeSet<String>) -> BTreeSet<Bytes>
{
    let mut out = BTreeSet::new();
    for p in paths
    {
        if let Some(b) = fs.read(p)
        {
            out.insert(b);
        }
    }
    for (_p, f) in fs.files_under(CACHE_DIR)
    {
        out.insert(f.data.clone());
    }
    out
}

pub fn cache_listing(fs: &Fs) -> BTreeMap<String, Bytes>
{
    fs.files_under(CACHE_DIR).into_iter().map(|(p, f)| (p[CACHE_DIR.len() + 1..].to_string(), f.data.clone())).collect()
}

/// C07: every regular file directly in the cache directory is named after its content
pub fn cache_audit(fs: &Fs) -> Vec<String>
{
    let mut bad = vec![];
    for (name, data) in cache_listing(fs)
    {
        if name.contains('/')
        {
            continue;
        }
        let want = refsha::cache_name(&data);
        if want != name
        {
            bad.push(format!("cache entry {} holds {:?} whose name should be {}", name, String::from_utf8_lossy(&data), want));
        }
    }
    bad
}

pub fn show(b: &Bytes) -> String
{
    String::from_utf8_lossy(b).to_string()
}

pub fn workspace_view(fs: &Fs) -> BTreeMap<String, String>
{
    fs.map.iter().filter_map(|(p, n)| match n
    {
        Node::File(f) if !p.starts_with(".ruler") && p != RULES_FILE => Some((p.clone(), format!("{}{}", show(&f.data), if f.exec { " [x]" } else { "" }))),
        _ => None,
    }).collect()
}

pub fn all_declared_targets(variants: &[RuleSet]) -> BTreeSet<String>
{
    variants.iter().flat_map(|rs| Graph::new(rs).all_targets()).collect()
}
