//! Evidence files, violation artefacts and the known-findings file.
use std::collections::BTreeMap;
use std::fs;
use std::path::PathBuf;
use std::time::Instant;

use serde::{Deserialize, Serialize};
use serde_json::{json, Map, Value};

use crate::refsha;

pub const VERIF_DIR: &str = "/verif";

#[derive(Clone, Debug, Serialize, Deserialize)]
pub struct Known
{
    pub property: String,
    pub signature: String,
    /// "known" (suppresses, prints KNOWN-FINDING) or "fixed" (suppresses nothing)
    pub status: String,
    #[serde(default)]
    pub commit: Option<String>,
    pub what: String,
}

pub fn load_known() -> Vec<Known>
{
    let p = format!("{}/known_findings.json", VERIF_DIR);
    match fs::read_to_string(&p)
    {
        Ok(s) => match serde_json::from_str::<Vec<Known>>(&s)
        {
            Ok(v) => v,
            Err(e) =>
            {
                eprintln!("machinery error: cannot parse {}: {}", p, e);
                std::process::exit(2);
            },
        },
        Err(_) => vec![],
    }
}

#[derive(Clone, Debug)]
pub struct Violation
{
    pub property: String,
    /// specific: scenario + what failed; a different violation has a different signature
    pub signature: String,
    pub summary: String,
    /// everything `--replay` needs
    pub replay: Value,
}

pub struct Report
{
    pub property: String,
    pub tier: String,
    pub seed: i64,
    pub level: String,
    pub start: Instant,
    pub coverage: Map<String, Value>,
    pub assumptions: Vec<String>,
    pub violations: Vec<Violation>,
    pub machinery_errors: Vec<String>,
    pub write_evidence: bool,
}

impl Report
{
    pub fn new(property: &str, tier: &str) -> Report
    {
        let seed = std::env::var("VERIF_SEED").ok().and_then(|s| s.parse::<i64>().ok()).unwrap_or(0);
        Report
        {
            property: property.to_string(),
            tier: tier.to_string(),
            seed,
            level: "model_checking".to_string(),
            start: Instant::now(),
            coverage: Map::new(),
            assumptions: vec![],
            violations: vec![],
            machinery_errors: vec![],
            write_evidence: true,
        }
    }

    pub fn set(&mut self, key: &str, v: Value)
    {
        self.coverage.insert(key.to_string(), v);
    }

    pub fn add(&mut self, key: &str, n: u64)
    {
        let cur = self.coverage.get(key).and_then(|v| v.as_u64()).unwrap_or(0);
        self.coverage.insert(key.to_string(), json!(cur + n));
    }

    pub fn push_sample(&mut self, v: Value)
    {
        let e = self.coverage.entry("samples".to_string()).or_insert_with(|| json!([]));
        if let Some(a) = e.as_array_mut()
        {
            if a.len() < 12
            {
                a.push(v);
            }
        }
    }

    pub fn assume(&mut self, s: &str)
    {
        self.assumptions.push(s.to_string());
    }

    pub fn violation(&mut self, v: Violation)
    {
        // keep one artefact per distinct signature
        if self.violations.iter().any(|x| x.signature == v.signature)
        {
            return;
        }
        self.violations.push(v);
    }

    pub fn machinery(&mut self, msg: String)
    {
        self.machinery_errors.push(msg);
    }

    /// Writes the evidence file, prints verdict lines, returns the process exit code.
    pub fn finish(mut self) -> i32
    {
        let known = load_known();
        let mut new_violations = 0;
        let mut known_hits = 0;
        let mut lines = vec![];
        let mut known_seen: Vec<String> = vec![];
        for v in &self.violations
        {
            let k = known.iter().find(|k| k.status == "known" && k.property == v.property && k.signature == v.signature);
            match k
            {
                Some(k) =>
                {
                    known_hits += 1;
                    known_seen.push(k.signature.clone());
                    lines.push(format!("KNOWN-FINDING: property={} {} [{}]", v.property, k.what, k.signature));
                },
                None =>
                {
                    new_violations += 1;
                    let path = write_violation(v);
                    lines.push(format!("VIOLATION property={} replay={}", v.property, path));
                    lines.push(format!("  signature: {}", v.signature));
                    lines.push(format!("  {}", v.summary));
                },
            }
        }
        let wall = self.start.elapsed().as_secs_f64();
        if !self.coverage.contains_key("samples")
        {
            self.coverage.insert("samples".to_string(), json!([]));
        }
        self.coverage.insert("known_findings_seen".to_string(), json!(known_seen));
        let ev = json!({
            "property_id": self.property,
            "tier": self.tier,
            "seed": self.seed,
            "level": self.level,
            "coverage": Value::Object(self.coverage.clone()),
            "assumptions": self.assumptions,
            "wall_s": (wall * 1000.0).round() / 1000.0,
            "violations": new_violations,
        });
        if self.write_evidence
        {
            // RVF_EVIDENCE_DIR: used when a thorough run is kept apart from the quick evidence (evidence-thorough/)
            let dir = std::env::var("RVF_EVIDENCE_DIR").unwrap_or_else(|_| format!("{}/evidence", VERIF_DIR));
            let _ = fs::create_dir_all(&dir);
            let path = format!("{}/{}.json", dir, self.property);
            let tmp = format!("{}.tmp", path);
            if let Err(e) = fs::write(&tmp, serde_json::to_string_pretty(&ev).unwrap()).and_then(|_| fs::rename(&tmp, &path))
            {
                eprintln!("machinery error: cannot write evidence {}: {}", path, e);
                return 2;
            }
        }
        for l in &lines
        {
            println!("{}", l);
        }
        let brief: Vec<String> = ["states", "transitions", "traces_validated_against_impl", "schedules", "evaluations", "max_depth", "exhaustive"]
            .iter().filter_map(|k| self.coverage.get(*k).map(|v| format!("{}={}", k, v))).collect();
        println!("{} [{}] {} wall={:.1}s violations={} known={}", self.property, self.tier, brief.join(" "), wall, new_violations, known_hits);
        for m in &self.machinery_errors
        {
            eprintln!("machinery error: {}", m);
        }
        // a violation that was found and replayed is a verdict whatever else went wrong around it;
        // machinery errors alone are never a verdict
        if new_violations > 0 { 1 } else if !self.machinery_errors.is_empty() { 2 } else { 0 }
    }
}

fn write_violation(v: &Violation) -> String
{
    let dir = format!("{}/violations", VERIF_DIR);
    let _ = fs::create_dir_all(&dir);
    let h = refsha::hex(&refsha::sha256(v.signature.as_bytes())[..4]);
    let path = format!("{}/{}-{}.json", dir, v.property, h);
    let body = json!({
        "property": v.property,
        "signature": v.signature,
        "summary": v.summary,
        "replay": v.replay,
    });
    let _ = fs::write(&path, serde_json::to_string_pretty(&body).unwrap());
    path
}

pub fn read_replay(path: &str) -> Value
{
    let s = match fs::read_to_string(path)
    {
        Ok(s) => s,
        Err(e) =>
        {
            eprintln!("machinery error: cannot read replay file {}: {}", path, e);
            std::process::exit(2);
        },
    };
    match serde_json::from_str::<Value>(&s)
    {
        Ok(v) => v,
        Err(e) =>
        {
            eprintln!("machinery error: cannot parse replay file {}: {}", path, e);
            std::process::exit(2);
        },
    }
}

pub fn work_dir() -> PathBuf
{
    let p = PathBuf::from(format!("{}/.work", VERIF_DIR));
    let _ = fs::create_dir_all(&p);
    p
}
