//! `enum parse` — C14: every sequence of at most N lines over a token alphabet, against
//! an independent reference parser written from the README grammar and the bundle rules.
use std::collections::{BTreeMap, BTreeSet};
use std::sync::atomic::{AtomicBool, AtomicU64, Ordering};
use std::sync::{Arc, Mutex};
use std::time::{Duration, Instant};

use serde_json::{json, Value};

use crate::bundle;
use crate::report::{Report, Violation};
use crate::rule::{self, ParseError, Rule};

// ---------------------------------------------------------------------------
// Reference parser

#[derive(Clone, Debug, PartialEq, Eq, PartialOrd, Ord)]
pub enum BundleDefect
{
    Empty,
    EmptyLines(Vec<usize>),
    Contradiction(usize, usize),
    WrongIndent(usize),
    /// the indentation is broken, so which siblings collide depends on how the broken part is
    /// read: ruler may legitimately report a contradiction found before the bad line
    AnyContradiction,
}

#[derive(Clone, Debug, PartialEq, Eq)]
pub enum RefResult
{
    Ok(Vec<(Vec<String>, Vec<String>, Vec<String>)>),
    /// rule-level error: kind, 1-based line
    Rule(&'static str, usize),
    /// any of these bundle errors is acceptable (section-relative, 0-based indices)
    Bundle(BTreeSet<BundleDefect>),
}

#[derive(Clone, Debug, PartialEq, Eq, PartialOrd, Ord)]
enum Tree
{
    Leaf,
    Parent(BTreeMap<String, Tree>),
}

fn split_indent(line: &str) -> (usize, String)
{
    let level = line.chars().take_while(|c| *c == '\t').count();
    (level, line.chars().skip(level).collect())
}

/// Reference bundle semantics: returns the paths, or the set of defects present.
fn ref_bundle(lines: &[&str]) -> Result<Vec<String>, BTreeSet<BundleDefect>>
{
    let mut defects = BTreeSet::new();
    if lines.is_empty()
    {
        defects.insert(BundleDefect::Empty);
        return Err(defects);
    }
    let blank: Vec<usize> = lines.iter().enumerate().filter(|(_, l)| l.chars().all(|c| c == '\t')).map(|(i, _)| i).collect();
    if !blank.is_empty()
    {
        defects.insert(BundleDefect::EmptyLines(blank));
        return Err(defects);
    }
    let parsed: Vec<(usize, String)> = lines.iter().map(|l| split_indent(l)).collect();
    // indentation may grow by at most one level from one line to the next; the first line is at level 0
    for k in 0..parsed.len()
    {
        let prev = if k == 0 { None } else { Some(parsed[k - 1].0) };
        let ok = match prev { None => parsed[k].0 == 0, Some(p) => parsed[k].0 <= p + 1 };
        if !ok { defects.insert(BundleDefect::WrongIndent(k)); }
    }
    if !defects.is_empty()
    {
        defects.insert(BundleDefect::AnyContradiction);
        return Err(defects);
    }
    // build the tree; siblings with the same name must be structurally identical
    fn build(items: &[(usize, String, usize)], level: usize, defects: &mut BTreeSet<BundleDefect>) -> BTreeMap<String, Tree>
    {
        let mut out: BTreeMap<String, (Tree, usize)> = BTreeMap::new();
        let mut i = 0;
        while i < items.len()
        {
            let mut j = i + 1;
            while j < items.len() && items[j].0 > level { j += 1; }
            let node = if j > i + 1 { Tree::Parent(build(&items[i + 1..j], level + 1, defects)) } else { Tree::Leaf };
            match out.get(&items[i].1)
            {
                Some((t, first)) => { if *t != node { defects.insert(BundleDefect::Contradiction(*first, items[i].2)); } },
                None => { out.insert(items[i].1.clone(), (node, items[i].2)); },
            }
            i = j;
        }
        out.into_iter().map(|(k, (t, _))| (k, t)).collect()
    }
    let items: Vec<(usize, String, usize)> = parsed.into_iter().enumerate().map(|(i, (l, t))| (l, t, i)).collect();
    let tree = build(&items, 0, &mut defects);
    if !defects.is_empty()
    {
        return Err(defects);
    }
    fn paths(t: &BTreeMap<String, Tree>, prefix: &str, out: &mut Vec<String>)
    {
        for (k, v) in t
        {
            match v
            {
                Tree::Leaf => out.push(format!("{}{}", prefix, k)),
                Tree::Parent(c) => paths(c, &format!("{}{}/", prefix, k), out),
            }
        }
    }
    let mut out = vec![];
    paths(&tree, "", &mut out);
    Ok(out)
}

/// Reference reading of the documented format.  Lines are the pieces between '\n'.
pub fn ref_parse(content: &str) -> RefResult
{
    let lines: Vec<&str> = content.split('\n').collect();
    let n = lines.len();
    let mut rules = vec![];
    let mut i = 0;
    loop
    {
        // blank lines between rules
        while i < n && lines[i].is_empty() { i += 1; }
        if i >= n { return RefResult::Ok(rules); }
        if lines[i] == ":" { return RefResult::Rule("UnexpectedExtraColon", i + 1); }
        let mut sections: Vec<Vec<&str>> = vec![];
        for (sec, eof_kind) in [(0, "UnexpectedEndOfFileMidTargets"), (1, "UnexpectedEndOfFileMidSources"), (2, "UnexpectedEndOfFileMidCommand")]
        {
            let _ = sec;
            let mut body = vec![];
            loop
            {
                if i >= n { return RefResult::Rule(eof_kind, n + 1); }
                let l = lines[i];
                if l.is_empty() { return RefResult::Rule("UnexpectedEmptyLine", i + 1); }
                i += 1;
                if l == ":" { break; }
                body.push(l);
            }
            sections.push(body);
        }
        let targets = ref_bundle(&sections[0]);
        let targets = match targets { Ok(t) => t, Err(d) => return RefResult::Bundle(d) };
        let sources = match ref_bundle(&sections[1]) { Ok(t) => t, Err(d) => return RefResult::Bundle(d) };
        rules.push((targets, sources, sections[2].iter().map(|s| s.to_string()).collect()));
    }
}

fn bundle_defect_of(e: &bundle::ParseError) -> BundleDefect
{
    match e
    {
        bundle::ParseError::Empty => BundleDefect::Empty,
        bundle::ParseError::ContainsEmptyLines(v) => BundleDefect::EmptyLines(v.clone()),
        bundle::ParseError::Contradiction(a, b) => BundleDefect::Contradiction(*a, *b),
        bundle::ParseError::WrongIndent(i) => BundleDefect::WrongIndent(*i),
    }
}

fn rule_err(e: &ParseError) -> Option<(&'static str, &String, usize)>
{
    match e
    {
        ParseError::UnexpectedEmptyLine(f, l) => Some(("UnexpectedEmptyLine", f, *l)),
        ParseError::UnexpectedExtraColon(f, l) => Some(("UnexpectedExtraColon", f, *l)),
        ParseError::UnexpectedEndOfFileMidTargets(f, l) => Some(("UnexpectedEndOfFileMidTargets", f, *l)),
        ParseError::UnexpectedEndOfFileMidSources(f, l) => Some(("UnexpectedEndOfFileMidSources", f, *l)),
        ParseError::UnexpectedEndOfFileMidCommand(f, l) => Some(("UnexpectedEndOfFileMidCommand", f, *l)),
        ParseError::BundleError(_, _) => None,
    }
}

/// Compare ruler's parse of one file with the reference; None = agree.
pub fn compare(file: &str, got: &Result<Vec<Rule>, ParseError>, want: &RefResult) -> Option<String>
{
    match (got, want)
    {
        (Ok(rs), RefResult::Ok(ws)) =>
        {
            if rs.len() != ws.len() { return Some(format!("{} rules parsed, {} written", rs.len(), ws.len())); }
            for (r, w) in rs.iter().zip(ws.iter())
            {
                if r.targets != w.0 { return Some(format!("targets {:?} instead of {:?}", r.targets, w.0)); }
                if r.sources != w.1 { return Some(format!("sources {:?} instead of {:?}", r.sources, w.1)); }
                if r.command != w.2 { return Some(format!("command {:?} instead of {:?}", r.command, w.2)); }
            }
            None
        },
        (Ok(rs), w) => Some(format!("malformed text accepted as {} rules; expected {:?}", rs.len(), w)),
        (Err(e), RefResult::Ok(_)) => Some(format!("well-formed text rejected with {:?}", e)),
        (Err(e), RefResult::Rule(kind, line)) =>
        {
            match rule_err(e)
            {
                Some((k, f, l)) =>
                {
                    if f != file { return Some(format!("error names file {:?} instead of {:?}", f, file)); }
                    if k != *kind { return Some(format!("error kind {} instead of {}", k, kind)); }
                    if l != *line { return Some(format!("{} reported at line {} instead of {}", k, l, line)); }
                    // what the user reads must name the file and the line as well
                    let msg = format!("{}", e);
                    if !msg.contains(&format!("{}:{}", file, line)) { return Some(format!("the error message {:?} does not name {}:{}", msg, file, line)); }
                    None
                },
                None => Some(format!("bundle error {:?} where {} at line {} is expected", e, kind, line)),
            }
        },
        (Err(e), RefResult::Bundle(ds)) =>
        {
            match e
            {
                ParseError::BundleError(f, be) =>
                {
                    if f != file { return Some(format!("error names file {:?} instead of {:?}", f, file)); }
                    let d = bundle_defect_of(be);
                    let ok = ds.contains(&d) || (matches!(d, BundleDefect::Contradiction(..)) && ds.contains(&BundleDefect::AnyContradiction));
                    if !ok { return Some(format!("bundle error {:?} does not match any defect present {:?}", be, ds)); }
                    let msg = format!("{}", e);
                    if !msg.contains(file) { return Some(format!("the error message {:?} does not name the file {}", msg, file)); }
                    None
                },
                other => Some(format!("error {:?} where a bundle error {:?} is expected", other, ds)),
            }
        },
    }
}

pub fn check_text(text: &str) -> Option<String>
{
    let _w = crate::watch::item(|| (format!("parsing the text {:?}", text), json!({"engine": "parse", "text": text})));
    let t = text.to_string();
    let got = match std::panic::catch_unwind(move || rule::parse("f.rules".to_string(), t))
    {
        Ok(r) => r,
        Err(_) => return Some("parser panicked".to_string()),
    };
    compare("f.rules", &got, &ref_parse(text))
}

/// parse_all over two files: concatenation at rule level, errors name the right file
pub fn check_split(a: &str, b: &str) -> Option<String>
{
    let _w = crate::watch::item(|| (format!("parsing the two files {:?} and {:?}", a, b), json!({"engine": "parse", "text": format!("{}<<<FILE-BOUNDARY>>>{}", a, b)})));
    let (a2, b2) = (a.to_string(), b.to_string());
    let got = match std::panic::catch_unwind(move || rule::parse_all(vec![("one.rules".to_string(), a2), ("two.rules".to_string(), b2)]))
    {
        Ok(r) => r,
        Err(_) => return Some("parse_all panicked".to_string()),
    };
    let ra = ref_parse(a);
    match &ra
    {
        RefResult::Ok(r1) =>
        {
            let rb = ref_parse(b);
            match &rb
            {
                RefResult::Ok(r2) =>
                {
                    let mut all = r1.clone();
                    all.extend(r2.iter().cloned());
                    compare("", &got, &RefResult::Ok(all))
                },
                other => compare("two.rules", &got, other),
            }
        },
        other => compare("one.rules", &got, other),
    }
}

// ---------------------------------------------------------------------------
// Universe

pub const ALPHABET: [&str; 13] = ["", ":", "a", "b", "\ta", "\tb", "\t\ta", "\t", ";", "a\r", "é", " a", "\t a"];

fn text_of(idx: &[usize], final_newline: bool) -> String
{
    let mut s = idx.iter().map(|i| ALPHABET[*i]).collect::<Vec<_>>().join("\n");
    if final_newline { s.push('\n'); }
    s
}

struct Found
{
    map: Mutex<BTreeMap<String, String>>,
}

fn record(found: &Found, msg: String, text: &str)
{
    let class: String = msg.split(|c: char| c == '[' || c == '{' || c == '(' || c.is_ascii_digit()).next().unwrap_or("").trim().to_string();
    let mut m = found.map.lock().unwrap();
    let better = match m.get(&class) { Some(t) => t.len() > text.len(), None => true };
    if better { m.insert(class, text.to_string()); }
}

pub fn run(rep: &mut Report, tier: &str)
{
    let thorough = tier == "thorough";
    let max_lines = if thorough { 7 } else { 6 };
    // 13^6 = 4.8 M texts x 2 in the quick tier
    let threads = crate::cli::threads();
    let found = Arc::new(Found { map: Mutex::new(BTreeMap::new()) });
    let count = Arc::new(AtomicU64::new(0));
    let ok_count = Arc::new(AtomicU64::new(0));
    let err_kinds: Arc<Mutex<BTreeMap<String, u64>>> = Arc::new(Mutex::new(BTreeMap::new()));
    let complete = Arc::new(AtomicBool::new(true));
    let deadline = Instant::now() + Duration::from_secs(if thorough { 400 } else { 35 });
    let a = ALPHABET.len() as u64;
    let mut per = vec![];
    for len in 0..=max_lines
    {
        let total = a.pow(len as u32);
        let next = Arc::new(AtomicU64::new(0));
        let mut hs = vec![];
        let before = count.load(Ordering::SeqCst);
        for _ in 0..threads
        {
            let next = next.clone();
            let found = found.clone();
            let count = count.clone();
            let ok_count = ok_count.clone();
            let err_kinds = err_kinds.clone();
            let complete = complete.clone();
            hs.push(std::thread::spawn(move ||
            {
                let mut local: BTreeMap<String, u64> = BTreeMap::new();
                loop
                {
                    let start = next.fetch_add(2048, Ordering::SeqCst);
                    if start >= total { break; }
                    if Instant::now() >= deadline { complete.store(false, Ordering::SeqCst); break; }
                    for k in start..(start + 2048).min(total)
                    {
                        let mut idx = vec![0usize; len];
                        let mut kk = k;
                        for p in 0..len { idx[p] = (kk % a) as usize; kk /= a; }
                        for nl in [false, true]
                        {
                            let text = text_of(&idx, nl);
                            count.fetch_add(1, Ordering::Relaxed);
                            match ref_parse(&text)
                            {
                                RefResult::Ok(r) => { if !r.is_empty() { ok_count.fetch_add(1, Ordering::Relaxed); } *local.entry("Ok".into()).or_insert(0) += 1; },
                                RefResult::Rule(k, _) => { *local.entry(k.to_string()).or_insert(0) += 1; },
                                RefResult::Bundle(d) => { for x in d { let n = match x { BundleDefect::Empty => "Bundle:Empty", BundleDefect::EmptyLines(_) => "Bundle:ContainsEmptyLines", BundleDefect::Contradiction(..) => "Bundle:Contradiction", BundleDefect::WrongIndent(_) => "Bundle:WrongIndent", BundleDefect::AnyContradiction => "Bundle:(contradiction-or-indent)" }; *local.entry(n.into()).or_insert(0) += 1; } },
                            }
                            if let Some(msg) = check_text(&text)
                            {
                                record(&found, msg, &text);
                            }
                        }
                    }
                }
                let mut g = err_kinds.lock().unwrap();
                for (k, v) in local { *g.entry(k).or_insert(0) += v; }
            }));
        }
        for h in hs { let _ = h.join(); }
        per.push(json!({"lines": len, "texts": 2 * total, "done": count.load(Ordering::SeqCst) - before}));
    }
    // two-file splits: every text of <= 5 lines (no final-newline variation) split at every line boundary
    let split_len = if thorough { 6 } else { 5 };
    let mut splits = 0u64;
    {
        let total = a.pow(split_len as u32);
        let next = Arc::new(AtomicU64::new(0));
        let splits_c = Arc::new(AtomicU64::new(0));
        let mut hs = vec![];
        for _ in 0..threads
        {
            let next = next.clone();
            let found = found.clone();
            let splits_c = splits_c.clone();
            let complete = complete.clone();
            hs.push(std::thread::spawn(move ||
            {
                loop
                {
                    let start = next.fetch_add(1024, Ordering::SeqCst);
                    if start >= total { break; }
                    if Instant::now() >= deadline { complete.store(false, Ordering::SeqCst); break; }
                    for k in start..(start + 1024).min(total)
                    {
                        let mut idx = vec![0usize; split_len];
                        let mut kk = k;
                        for p in 0..split_len { idx[p] = (kk % a) as usize; kk /= a; }
                        for cut in 0..=split_len
                        {
                            let ta = text_of(&idx[..cut], cut > 0);
                            let tb = text_of(&idx[cut..], true);
                            splits_c.fetch_add(1, Ordering::Relaxed);
                            if let Some(msg) = check_split(&ta, &tb)
                            {
                                record(&found, format!("two files: {}", msg), &format!("{}<<<FILE-BOUNDARY>>>{}", ta, tb));
                            }
                        }
                    }
                }
            }));
        }
        for h in hs { let _ = h.join(); }
        splits = splits_c.load(Ordering::SeqCst);
    }
    // bundle sections in depth: every target section of <= 7 lines over three indentation levels
    // (repeated directories that agree or differ at any level), wrapped into a complete rule
    let mut sections = 0u64;
    {
        // "a/b": a directory line that itself contains a separator
        const BT: [&str; 8] = ["a", "b", "\ta", "\tb", "\t\ta", "\t\tb", "a/b", "\ta/b"];
        let max_sec = if thorough { 8 } else { 7 };
        for len in 1..=max_sec
        {
            let total = (BT.len() as u64).pow(len as u32);
            let next = Arc::new(AtomicU64::new(0));
            let cnt = Arc::new(AtomicU64::new(0));
            let mut hs = vec![];
            for _ in 0..threads
            {
                let next = next.clone();
                let found = found.clone();
                let cnt = cnt.clone();
                let complete = complete.clone();
                hs.push(std::thread::spawn(move ||
                {
                    loop
                    {
                        let start = next.fetch_add(2048, Ordering::SeqCst);
                        if start >= total { break; }
                        if Instant::now() >= deadline { complete.store(false, Ordering::SeqCst); break; }
                        for k in start..(start + 2048).min(total)
                        {
                            let mut kk = k;
                            let mut lines: Vec<&str> = vec![];
                            for _ in 0..len { lines.push(BT[(kk % BT.len() as u64) as usize]); kk /= BT.len() as u64; }
                            let text = format!("{}\n:\ns\n:\nc\n:\n", lines.join("\n"));
                            cnt.fetch_add(1, Ordering::Relaxed);
                            if let Some(msg) = check_text(&text) { record(&found, format!("bundle section: {}", msg), &text); }
                        }
                    }
                }));
            }
            for h in hs { let _ = h.join(); }
            sections += cnt.load(Ordering::SeqCst);
        }
    }
    // rendered rule sets under formatting choices, and every single-edit corruption of them
    let mut rendered = 0u64;
    for base in rendered_bases()
    {
        let lines: Vec<&str> = base.split('\n').collect();
        let mut variants: Vec<String> = vec![base.clone(), format!("\n\n{}", base), format!("{}\n\n", base), base.trim_end_matches('\n').to_string()];
        for i in 0..lines.len()
        {
            // deleted line, inserted blank line, inserted ':', truncated here
            let mut d = lines.clone(); d.remove(i); variants.push(d.join("\n"));
            let mut b = lines.clone(); b.insert(i, ""); variants.push(b.join("\n"));
            let mut c = lines.clone(); c.insert(i, ":"); variants.push(c.join("\n"));
            let mut t = lines.clone(); t.insert(i, "\t"); variants.push(t.join("\n"));
            variants.push(lines[..i].join("\n"));
            variants.push(format!("{}\n", lines[..i].join("\n")));
        }
        for v in variants
        {
            rendered += 1;
            if let Some(msg) = check_text(&v) { record(&found, msg, &v); }
        }
    }
    let n = count.load(Ordering::SeqCst);
    rep.set("states", json!(n));
    rep.set("transitions", json!(n + splits + rendered + sections));
    rep.set("traces_validated_against_impl", json!(n + splits + rendered + sections));
    rep.set("evaluations", json!(n + splits + rendered + sections));
    rep.set("distinct_nontrivial", json!(ok_count.load(Ordering::SeqCst)));
    rep.set("texts_with_at_least_one_rule", json!(ok_count.load(Ordering::SeqCst)));
    rep.set("reference_outcome_classes", json!(*err_kinds.lock().unwrap()));
    rep.set("two_file_splits", json!(splits));
    rep.set("rendered_and_corrupted_texts", json!(rendered));
    rep.set("bundle_sections_three_levels", json!(sections));
    rep.set("per_length", json!(per));
    rep.set("exhaustive", json!(complete.load(Ordering::SeqCst)));
    rep.set("rule", json!(format!("every sequence of <= {} lines over {:?}, with and without final newline; every split of every {}-line sequence into two files; rendered rule sets and all their single-line edits", max_lines, ALPHABET, split_len)));
    rep.push_sample(json!("a\n:\n\ta\n:\n;\n:\n"));
    rep.push_sample(json!("a\n\tb\n\tb\n:\nb\n:\n:"));
    for (class, text) in found.map.lock().unwrap().iter()
    {
        let detail = if text.contains("<<<FILE-BOUNDARY>>>")
        {
            let p: Vec<&str> = text.split("<<<FILE-BOUNDARY>>>").collect();
            check_split(p[0], p[1]).unwrap_or_default()
        }
        else { check_text(text).unwrap_or_default() };
        rep.violation(Violation
        {
            property: "C14".into(),
            signature: format!("C14:parse:{}", class),
            summary: format!("{} — text {:?}", detail, text),
            replay: json!({"engine": "parse", "text": text}),
        });
    }
}

fn rendered_bases() -> Vec<String>
{
    vec![
        "build/game\n:\nsrc/game.h\nsrc/game.cpp\n:\nc++\nsrc/game.cpp\n-o build/game\n:\n".to_string(),
        "build\n\tgame\n\tlib\n\t\tm.o\n:\nsrc\n\tgame.h\n\tgame.cpp\n:\nc++\n;\nstrip\n:\n\nout\n:\nbuild\n\tgame\n:\ncp\n:\n".to_string(),
        "b\na\nb\n:\nz\n\ty\n\tx\nz\n\tx\n\ty\n:\ncmd\n:\n".to_string(),
        " lead\ntrail \n\u{a0}nbsp\n:\n\rcr\nd\n\t e\n:\n  spaced command \n:\n".to_string(),
        "t\n:\ns\n:\n:\n".to_string(),
        // lines that look like comments or like decorated separators are ordinary lines
        "#t\n:\n//s\n-- s\n#\n:\n# not a comment\n:\n".to_string(),
        "t\n :\n:\ns\n: \n:\nc :\n::\n:\n".to_string(),
        "out\n\tlib\n\t\ta.o\n\t\tb.o\nout\n\tlib\n\t\tb.o\n\t\ta.o\n\tbin\n\t\tx\n:\nsrc\n\ta.c\n:\ncc\n:\n".to_string(),
    ]
}

pub fn replay(v: &Value) -> i32
{
    let text = v["text"].as_str().unwrap_or("").to_string();
    let r = if text.contains("<<<FILE-BOUNDARY>>>")
    {
        let p: Vec<&str> = text.split("<<<FILE-BOUNDARY>>>").collect();
        check_split(p[0], p[1])
    }
    else { check_text(&text) };
    println!("text {:?}\nreference: {:?}", text, ref_parse(&text));
    match r { Some(m) => { println!("{}", m); 1 }, None => 0 }
}
