//! Scenario corpus for the `hist`, `sched` and `crash` engines.
use crate::hist::{OpKinds, Scenario};
use crate::memsys::{bytes, Bytes};
use crate::model::*;

fn xy() -> Vec<Bytes> { vec![bytes("X"), bytes("Y")] }
fn xyz() -> Vec<Bytes> { vec![bytes("X"), bytes("Y"), bytes("Z")] }
fn g(x: &[&str]) -> Vec<Option<String>>
{
    let mut v = vec![None];
    v.extend(x.iter().map(|t| Some(t.to_string())));
    v
}

/// S1: chain of two rules
pub fn s1_chain() -> Scenario
{
    Scenario
    {
        name: "S1-chain".into(),
        variants: vec![vec![cat_rule("m", &["s1"]), cat_rule("t", &["m", "s2"])]],
        edits: vec![(s("s1"), xy()), (s("s2"), xy())],
        goals: g(&["m", "t"]),
        tamper: sv(&["m", "t"]),
        ops: OpKinds::all(),
        nondeterministic: false,
        flat_variants: vec![],
    }
}

/// S1 with three values per leaf (thorough tier)
pub fn s1_chain_xyz() -> Scenario
{
    let mut sc = s1_chain();
    sc.name = "S1-chain-xyz".into();
    sc.edits = vec![(s("s1"), xyz()), (s("s2"), xyz())];
    sc
}

/// S14: five rules in the shape app <- core util ; core <- gen ; gen <- lex ; lex <- util ; util <- s
pub fn s14_five() -> Scenario
{
    Scenario
    {
        name: "S14-five".into(),
        variants: vec![vec![cat_rule("app", &["core", "util"]), cat_rule("core", &["gen"]), cat_rule("gen", &["lex", "s2"]), cat_rule("lex", &["util"]), cat_rule("util", &["s"])]],
        edits: vec![(s("s"), xy()), (s("s2"), xy())],
        goals: g(&["gen", "app"]),
        tamper: sv(&["lex"]),
        ops: OpKinds { edit: true, build: true, clean: true, tamper: true, delete: true, rm_table: true, ..Default::default() },
        nondeterministic: false,
        flat_variants: vec![],
    }
}

/// S2: diamond; l and r are byte-identical whenever u is empty
pub fn s2_diamond() -> Scenario
{
    Scenario
    {
        name: "S2-diamond".into(),
        variants: vec![vec![
            cat_rule("top", &["l", "r"]),
            cat_rule("l", &["s"]),
            cat_rule("r", &["s", "u"]),
        ]],
        edits: vec![(s("s"), xy()), (s("u"), vec![bytes(""), bytes("Y")])],
        goals: g(&["l", "top"]),
        tamper: sv(&["l", "top"]),
        ops: OpKinds::all(),
        nondeterministic: false,
        flat_variants: vec![],
    }
}

/// S3: a two-target rule whose targets change independently, with a dependent on each
pub fn s3_multi() -> Scenario
{
    Scenario
    {
        name: "S3-multi".into(),
        variants: vec![vec![
            multi_rule(&["t1", "t2"], &["s1", "s2"], &[&["s1"], &["s2"]]),
            cat_rule("c1", &["t1"]),
            cat_rule("c2", &["t2"]),
        ]],
        edits: vec![(s("s1"), xy()), (s("s2"), xy())],
        goals: g(&["c1", "c2", "t2"]),
        tamper: sv(&["t1", "t2", "c2"]),
        ops: OpKinds::all(),
        nondeterministic: false,
        flat_variants: vec![],
    }
}

/// S3 reduced to the alphabet of the C18 product search
pub fn s3_c18() -> Scenario
{
    Scenario
    {
        name: "S3-c18".into(),
        variants: vec![vec![
            multi_rule(&["t1", "t2"], &["s1", "s2"], &[&["s1"], &["s2"]]),
            cat_rule("c", &["t1"]),
        ]],
        edits: vec![(s("s1"), xy()), (s("s2"), xy())],
        goals: vec![None],
        tamper: vec![],
        ops: OpKinds::basic(),
        nondeterministic: false,
        flat_variants: vec![],
    }
}

/// S4: twins — independent rules with byte-identical outputs
pub fn s4_twins() -> Scenario
{
    Scenario
    {
        name: "S4-twins".into(),
        variants: vec![vec![cat_rule("a", &["s"]), cat_rule("b", &["s"]), cat_rule("c", &["a", "b"])]],
        edits: vec![(s("s"), xy())],
        goals: g(&["a", "c"]),
        tamper: sv(&["a", "b"]),
        ops: OpKinds::all(),
        nondeterministic: false,
        flat_variants: vec![],
    }
}

pub fn s4_c18() -> Scenario
{
    Scenario
    {
        name: "S4-c18".into(),
        variants: vec![vec![cat_rule("a", &["s"]), cat_rule("b", &["u"]), cat_rule("c", &["a", "b"])]],
        edits: vec![(s("s"), xy()), (s("u"), xy())],
        goals: vec![None],
        tamper: vec![],
        ops: OpKinds::basic(),
        nondeterministic: false,
        flat_variants: vec![],
    }
}

/// S5: rules-file edits
pub fn s5_variants() -> Scenario
{
    let base = vec![cat_rule("t", &["s1", "s2"]), cat_rule("d", &["t"])];
    // changed command
    let v1 = vec![RuleSpec { targets: sv(&["t"]), sources: sv(&["s1", "s2"]), lines: vec![Line::Cat { inputs: sv(&["s2", "s1"]), out: s("t") }] }, cat_rule("d", &["t"])];
    // removed source
    let v2 = vec![cat_rule("t", &["s1"]), cat_rule("d", &["t"])];
    // added target
    let v3 = vec![multi_rule(&["t", "t2"], &["s1", "s2"], &[&["s1", "s2"], &["s2"]]), cat_rule("d", &["t"])];
    // reordered source lines, same command: same identity as base
    let v4 = vec![RuleSpec { targets: sv(&["t"]), sources: sv(&["s2", "s1"]), lines: vec![Line::Cat { inputs: sv(&["s1", "s2"]), out: s("t") }] }, cat_rule("d", &["t"])];
    Scenario
    {
        name: "S5-variants".into(),
        variants: vec![base, v1, v2, v3, v4],
        edits: vec![(s("s1"), xy()), (s("s2"), xy())],
        goals: g(&["t"]),
        tamper: sv(&["t"]),
        ops: OpKinds { edit: true, build: true, clean: true, rules: true, tamper: true, delete: true, ..Default::default() },
        nondeterministic: false,
        flat_variants: vec![],
    }
}

/// S6: executable output
pub fn s6_exec() -> Scenario
{
    let x = RuleSpec { targets: sv(&["x"]), sources: sv(&["s"]), lines: vec![Line::Cat { inputs: sv(&["s"]), out: s("x") }, Line::ChmodX(s("x"))] };
    Scenario
    {
        name: "S6-exec".into(),
        variants: vec![vec![x, cat_rule("y", &["x"])]],
        edits: vec![(s("s"), xy())],
        goals: g(&["x", "y"]),
        tamper: sv(&["x"]),
        ops: OpKinds { edit: true, build: true, clean: true, tamper: true, delete: true, drop_cache: true, rm_table: true, ..Default::default() },
        nondeterministic: false,
        flat_variants: vec![],
    }
}

/// S7: a two-target rule reading an undeclared input `u`; `mask` says which targets depend on it
pub fn s7_undeclared(mask: u8) -> Scenario
{
    let p1: Vec<&str> = if mask & 1 != 0 { vec!["s", "u"] } else { vec!["s"] };
    let p2: Vec<&str> = if mask & 2 != 0 { vec!["s", "u"] } else { vec!["s"] };
    let a = RuleSpec
    {
        targets: sv(&["t1", "t2"]),
        sources: sv(&["s"]),
        lines: vec![Line::Cat { inputs: sv(&p1), out: s("t1") }, Line::Cat { inputs: sv(&p2), out: s("t2") }],
    };
    Scenario
    {
        name: format!("S7-undeclared-{}", mask),
        variants: vec![vec![a, cat_rule("b", &["s2"]), cat_rule("d", &["t1"])]],
        edits: vec![(s("s"), xy()), (s("u"), xy()), (s("s2"), xy())],
        goals: vec![None],
        tamper: sv(&["t1", "t2"]),
        ops: OpKinds { edit: true, build: true, tamper: true, delete: true, drop_cache: true, rm_cache: true, ..Default::default() },
        nondeterministic: true,
        flat_variants: vec![],
    }
}

/// S7 with three targets: `mask` says which of t1,t2,t3 depend on the undeclared input
pub fn s7_undeclared3(mask: u8) -> Scenario
{
    let part = |bit: u8| -> Vec<&'static str> { if mask & bit != 0 { vec!["s", "u"] } else { vec!["s"] } };
    let a = RuleSpec
    {
        targets: sv(&["t1", "t2", "t3"]),
        sources: sv(&["s"]),
        lines: vec![Line::Cat { inputs: sv(&part(1)), out: s("t1") }, Line::Cat { inputs: sv(&part(2)), out: s("t2") }, Line::Cat { inputs: sv(&part(4)), out: s("t3") }],
    };
    Scenario
    {
        name: format!("S7-undeclared3-{}", mask),
        variants: vec![vec![a, cat_rule("b", &["s2"])]],
        edits: vec![(s("s"), xy()), (s("u"), xy()), (s("s2"), xy())],
        goals: vec![None],
        tamper: sv(&["t1", "t3"]),
        ops: OpKinds { edit: true, build: true, tamper: true, delete: true, rm_cache: true, ..Default::default() },
        nondeterministic: true,
        flat_variants: vec![],
    }
}

/// S7 with a date-preserving command (`cp -p u t1`) and an undeclared input that can be
/// replaced by an *older* file (restored from a backup): the re-run then leaves a target
/// whose modification time is not newer than the remembered one
pub fn s7_preserving() -> Scenario
{
    let a = RuleSpec { targets: sv(&["t1"]), sources: sv(&["s"]), lines: vec![Line::CpP { from: s("u"), to: s("t1") }] };
    Scenario
    {
        name: "S7-preserving".into(),
        variants: vec![vec![a, cat_rule("b", &["s2"])]],
        edits: vec![(s("s"), xy()), (s("u"), xy()), (s("s2"), xy())],
        goals: vec![None],
        tamper: sv(&["t1"]),
        ops: OpKinds { edit: true, build: true, tamper: true, delete: true, rm_cache: true, backdate: true, ..Default::default() },
        nondeterministic: true,
        flat_variants: vec![],
    }
}

/// S8: failing and non-producing rules inside a graph with an independent sibling;
/// variant 1 repairs them; leaves can go missing
pub fn s8_failures() -> Scenario
{
    let broken = vec![
        fail_rule("f", &["s"]),
        cat_rule("df", &["f"]),
        cat_rule("ddf", &["df", "s2"]),
        cat_rule("g", &["s"]),
        noout_rule("n", &["s2"]),
        cat_rule("dn", &["n"]),
    ];
    let repaired = vec![
        cat_rule("f", &["s"]),
        cat_rule("df", &["f"]),
        cat_rule("ddf", &["df", "s2"]),
        cat_rule("g", &["s"]),
        cat_rule("n", &["s2"]),
        cat_rule("dn", &["n"]),
    ];
    let half = vec![
        cat_rule("f", &["s"]),
        cat_rule("df", &["f"]),
        cat_rule("ddf", &["df", "s2"]),
        cat_rule("g", &["s"]),
        noout_rule("n", &["s2"]),
        cat_rule("dn", &["n"]),
    ];
    Scenario
    {
        name: "S8-failures".into(),
        variants: vec![broken, repaired, half],
        edits: vec![(s("s"), xy()), (s("s2"), xy())],
        goals: g(&["ddf", "g"]),
        tamper: vec![],
        ops: OpKinds { edit: true, build: true, clean: true, rules: true, rm_leaf: true, ..Default::default() },
        nondeterministic: false,
        flat_variants: vec![],
    }
}

/// S9: scope — out-of-scope rules and undeclared files present (C09)
pub fn s9_scope() -> Scenario
{
    Scenario
    {
        name: "S9-scope".into(),
        variants: vec![vec![
            cat_rule("a", &["s"]),
            cat_rule("b", &["a", "other"]),
            cat_rule("z", &["other"]),
            multi_rule(&["p", "q"], &["s"], &[&["s"], &["s", "s"]]),
            // a target whose name starts with a dot, next to an undeclared file with the same name without it
            cat_rule(".stamp", &["s"]),
        ]],
        edits: vec![(s("s"), xy()), (s("other"), xy()), (s("notes.txt"), vec![bytes("keep me")]), (s("stamp"), vec![bytes("not a target")])],
        goals: g(&["a", "b", "q", "absent", ".stamp"]),
        tamper: sv(&["a", "z"]),
        ops: OpKinds { edit: true, build: true, clean: true, tamper: true, delete: true, ..Default::default() },
        nondeterministic: false,
        flat_variants: vec![],
    }
}

/// S10: a two-target rule written with a directory bundle.  The parser yields its targets in
/// bundle order ("gen/data" before "gen.log") which is NOT the string order ("gen.log" <
/// "gen/data"), so everything that indexes targets must agree on one order.  The directory
/// `gen` exists from the start (`gen/.keep`).
pub fn s10_bundle() -> Scenario
{
    let gen = RuleSpec
    {
        targets: sv(&["gen/data", "gen.log"]),
        sources: sv(&["s1", "s2"]),
        lines: vec![Line::Cat { inputs: sv(&["s1"]), out: s("gen/data") }, Line::Cat { inputs: sv(&["s2"]), out: s("gen.log") }],
    };
    Scenario
    {
        name: "S10-bundle".into(),
        variants: { let v = vec![gen, cat_rule("p", &["gen/data"]), cat_rule("d", &["p", "s3"]), cat_rule("q", &["gen.log"])]; vec![v.clone(), v] },
        edits: vec![(s("s1"), xy()), (s("s2"), xy()), (s("s3"), xy()), (s("gen/.keep"), vec![bytes("")])],
        goals: g(&["d", "q"]),
        tamper: sv(&["gen.log"]),
        ops: OpKinds { edit: true, build: true, clean: true, tamper: true, delete: true, rules: true, ..Default::default() },
        nondeterministic: false,
        flat_variants: vec![1],
    }
}

/// S11: a three-target rule whose targets change independently (status lines, C20)
pub fn s11_three() -> Scenario
{
    Scenario
    {
        name: "S11-three".into(),
        variants: vec![vec![
            multi_rule(&["a", "b", "c"], &["s1", "s2", "s3"], &[&["s1"], &["s2"], &["s3"]]),
            cat_rule("z", &["b"]),
        ]],
        edits: vec![(s("s1"), xy()), (s("s2"), xy()), (s("s3"), xy())],
        goals: g(&["z"]),
        tamper: sv(&["b", "c"]),
        ops: OpKinds { edit: true, build: true, clean: true, tamper: true, delete: true, drop_cache: true, ..Default::default() },
        nondeterministic: false,
        flat_variants: vec![],
    }
}

/// S12: commands of several lines where a line that is not the last one fails (the later
/// lines still run and write the target: a failing command that does write, so C04 only)
pub fn s12_multiline_failure() -> Scenario
{
    let bad = RuleSpec { targets: sv(&["f"]), sources: sv(&["s"]), lines: vec![Line::False(s("f")), Line::Cat { inputs: sv(&["s"]), out: s("f") }] };
    let bad2 = RuleSpec { targets: sv(&["h"]), sources: sv(&["s2"]), lines: vec![Line::Cat { inputs: sv(&["s2"]), out: s("h") }, Line::False(s("h")), Line::True(s("h"))] };
    let killed = RuleSpec { targets: sv(&["k"]), sources: sv(&["s2"]), lines: vec![Line::Cat { inputs: sv(&["s2"]), out: s("k") }, Line::Kill(s("k"))] };
    let good = cat_rule("f", &["s"]);
    let good2 = cat_rule("h", &["s2"]);
    Scenario
    {
        name: "S12-multiline-failure".into(),
        variants: vec![
            vec![bad.clone(), cat_rule("df", &["f"]), cat_rule("g", &["s"]), bad2.clone(), cat_rule("dh", &["h"]), killed, cat_rule("dk", &["k"])],
            vec![good, cat_rule("df", &["f"]), cat_rule("g", &["s"]), good2, cat_rule("dh", &["h"]), cat_rule("k", &["s2"]), cat_rule("dk", &["k"])],
        ],
        edits: vec![(s("s"), xy()), (s("s2"), xy())],
        goals: g(&["df", "g"]),
        tamper: vec![],
        ops: OpKinds { edit: true, build: true, clean: true, rules: true, ..Default::default() },
        nondeterministic: false,
        flat_variants: vec![],
    }
}

/// S13: like S1 but the leaves take values that are not valid UTF-8 (cache server, C19)
pub fn s13_binary() -> Scenario
{
    let bin = |b: &[u8]| -> Bytes { std::sync::Arc::new(b.to_vec()) };
    Scenario
    {
        name: "S13-binary".into(),
        variants: vec![vec![cat_rule("m", &["s1"]), cat_rule("t", &["m", "s2"])]],
        edits: vec![(s("s1"), vec![bin(&[0xff, 0xfe, 0x00, 0x80]), bin(b"text"), bin(&[0x00]), bin(&[0xfe, 0xfe, 0x00, 0x81])]), (s("s2"), vec![bin(&[0xc3, 0x28]), bin(b"Y")])],
        goals: g(&["m"]),
        tamper: vec![],
        ops: OpKinds { edit: true, build: true, clean: true, ..Default::default() },
        nondeterministic: false,
        flat_variants: vec![],
    }
}

/// S15: four independent rules; in variant 1 the first of them is given twice (as when two rules
/// files both contain it).  Two rules then claim one target: every build or clean must be refused
/// and must leave the workspace alone, whatever goal is named.
pub fn s15_repeated() -> Scenario
{
    let base = vec![cat_rule("a", &["sa"]), cat_rule("b", &["sb"]), cat_rule("c", &["sc"]), cat_rule("d", &["sa", "sc"])];
    let mut twice = vec![cat_rule("a", &["sa"])];
    twice.extend(base.clone());
    Scenario
    {
        name: "S15-repeated-rule".into(),
        variants: vec![base, twice],
        edits: vec![(s("sa"), xy()), (s("sb"), xy()), (s("sc"), xy())],
        goals: g(&["b", "c"]),
        tamper: sv(&["c"]),
        ops: OpKinds { edit: true, build: true, clean: true, tamper: true, delete: true, rules: true, ..Default::default() },
        nondeterministic: false,
        flat_variants: vec![],
    }
}

/// S16: the chain of S1 with file contents longer than any plausible read block (4097, 9000 and
/// 70000 bytes): hashing, caching and recovery of files that do not fit one read.
pub fn s16_big() -> Scenario
{
    let big = |n: usize, seed: u8| -> Bytes { std::sync::Arc::new((0..n).map(|i| (((i * 7 + i / 251) as u8).wrapping_add(seed)) | 1).collect()) };
    Scenario
    {
        name: "S16-big-files".into(),
        variants: vec![vec![cat_rule("m", &["s1"]), cat_rule("t", &["m", "s2"])]],
        edits: vec![(s("s1"), vec![big(4097, 1), big(9000, 2), bytes("X")]), (s("s2"), vec![big(70000, 3), bytes("Y")])],
        goals: g(&["m"]),
        tamper: sv(&["m"]),
        ops: OpKinds { edit: true, build: true, clean: true, tamper: true, delete: true, ..Default::default() },
        nondeterministic: false,
        flat_variants: vec![],
    }
}

/// S18: zero-byte files.  A source that can be empty, a chain below it, and a second rules variant whose
/// first rule stops generating its target (exit 0, writes nothing): an empty target left over from
/// the other variant must not pass for a generated one.  (The hash of a zero-byte file is also what
/// ruler's "no state yet" placeholder carries.)
pub fn s18_empty() -> Scenario
{
    Scenario
    {
        name: "S18-empty-files".into(),
        variants: vec![vec![cat_rule("n", &["s"]), cat_rule("dn", &["n", "s2"])], vec![noout_rule("n", &["s"]), cat_rule("dn", &["n", "s2"])]],
        edits: vec![(s("s"), vec![bytes(""), bytes("X")]), (s("s2"), vec![bytes(""), bytes("Y")])],
        goals: g(&["n"]),
        tamper: sv(&["n"]),
        ops: OpKinds { edit: true, build: true, clean: true, rules: true, delete: true, ..Default::default() },
        nondeterministic: false,
        flat_variants: vec![],
    }
}

/// S19: a target is moved aside and later moved back (`mv` keeps the modification time), so a file
/// OLDER than what the file-state table last saw at the path stands there with other content.
pub fn s19_aside() -> Scenario
{
    Scenario
    {
        name: "S19-moved-aside".into(),
        variants: vec![vec![cat_rule("t", &["s"]), cat_rule("d", &["t"])]],
        edits: vec![(s("s"), xy())],
        goals: vec![None],
        tamper: sv(&["t"]),
        ops: OpKinds { edit: true, build: true, clean: true, aside: true, ..Default::default() },
        nondeterministic: false,
        flat_variants: vec![],
    }
}

/// S17 with a third value of `s` (a build on sources never seen before displaces every current target)
pub fn s17b_failing_twins3() -> Scenario
{
    let mut sc = s17_c18_failing_twins();
    sc.name = "S17b-failing-twins-3".into();
    sc.edits[0].1.push(bytes("3"));
    sc
}

/// S20: a rule whose declared source is a DIRECTORY (the command reads two files inside it); ruler
/// hashes the directory (names and contents), so an edit of either file must cause a rebuild
pub fn s20_dir_source() -> Scenario
{
    let t = RuleSpec { targets: sv(&["t"]), sources: sv(&["d"]), lines: vec![Line::Cat { inputs: sv(&["d/x", "d/y"]), out: s("t") }] };
    Scenario
    {
        name: "S20-directory-source".into(),
        variants: vec![vec![t, cat_rule("dd", &["t", "s2"])]],
        edits: vec![(s("d/x"), xy()), (s("d/y"), xy()), (s("s2"), xy())],
        goals: g(&["t"]),
        tamper: sv(&["t"]),
        ops: OpKinds { edit: true, build: true, clean: true, delete: true, rm_leaf: true, ..Default::default() },
        nondeterministic: false,
        flat_variants: vec![],
    }
}

/// S21: file names outside ASCII (and one in a sub-directory whose name is outside ASCII)
pub fn s21_unicode_names() -> Scenario
{
    Scenario
    {
        name: "S21-unicode-names".into(),
        variants: vec![vec![cat_rule("t\u{e4}", &["s\u{f6}"]), cat_rule("d\u{ef}r/\u{fc}", &["t\u{e4}", "s2"])]],
        edits: vec![(s("s\u{f6}"), xy()), (s("s2"), xy()), (s("d\u{ef}r/.keep"), vec![bytes("")])],
        goals: g(&["t\u{e4}"]),
        tamper: sv(&["t\u{e4}"]),
        ops: OpKinds { edit: true, build: true, clean: true, tamper: true, delete: true, ..Default::default() },
        nondeterministic: false,
        flat_variants: vec![],
    }
}

/// S22: a rules-file edit turns a leaf source into a generated target (and back) while the bytes stay
/// the same: the rule that reads it keeps its identity and its source contents
pub fn s22_leaf_becomes_target() -> Scenario
{
    let base = vec![cat_rule("t", &["s1", "s2"]), cat_rule("d", &["t"])];
    let gen = vec![cat_rule("s1", &["raw"]), cat_rule("t", &["s1", "s2"]), cat_rule("d", &["t"])];
    Scenario
    {
        name: "S22-leaf-becomes-target".into(),
        variants: vec![base, gen],
        edits: vec![(s("s1"), xy()), (s("s2"), xy()), (s("raw"), xy())],
        goals: vec![None],
        tamper: vec![],
        ops: OpKinds { edit: true, build: true, rules: true, ..Default::default() },
        nondeterministic: false,
        flat_variants: vec![],
    }
}

/// S17 (C18 only): a two-target rule whose targets are byte-identical twins and read an undeclared
/// file `k` (deleting `k` makes its command fail), next to a rule whose target can take the same
/// content as the twins.  Reaches: partial recovery of one twin from an entry another rule's target
/// left in the cache, followed by a failing command, followed by a successful build.
pub fn s17_c18_failing_twins() -> Scenario
{
    let r = RuleSpec
    {
        targets: sv(&["a", "b"]),
        sources: sv(&["s"]),
        lines: vec![Line::GuardedCat { guard: s("k"), inputs: sv(&["s", "k"]), out: s("a") }, Line::GuardedCat { guard: s("k"), inputs: sv(&["s", "k"]), out: s("b") }],
    };
    Scenario
    {
        name: "S17-c18-failing-twins".into(),
        variants: vec![vec![r, cat_rule("c", &["u"])]],
        edits: vec![(s("s"), vec![bytes("2"), bytes("1")]), (s("u"), vec![bytes("q"), bytes("2K"), bytes("w")]), (s("k"), vec![bytes("K")])],
        goals: vec![None],
        tamper: sv(&["k"]),
        ops: OpKinds { edit: true, build: true, delete: true, ..Default::default() },
        nondeterministic: true,
        flat_variants: vec![],
    }
}

pub fn by_name(name: &str) -> Option<Scenario>
{
    let all = all_scenarios();
    all.into_iter().find(|sc| sc.name == name)
}

pub fn all_scenarios() -> Vec<Scenario>
{
    let mut v = vec![s1_chain(), s1_chain_xyz(), s14_five(), s2_diamond(), s3_multi(), s3_c18(), s4_twins(), s4_c18(), s5_variants(), s6_exec(), s8_failures(), s9_scope(), s10_bundle(), s11_three(), s12_multiline_failure(), s13_binary(), s15_repeated(), s16_big(), s17_c18_failing_twins(), s18_empty(), s19_aside(), s17b_failing_twins3(), s20_dir_source(), s21_unicode_names(), s22_leaf_becomes_target()];
    for m in 0..4 { v.push(s7_undeclared(m)); }
    for m in 0..8 { v.push(s7_undeclared3(m)); }
    v.push(s7_preserving());
    v
}
