//! `enum state` — C16: saved state round-trips exactly; damaged state is rejected, not
//! misread.  Small-scope instances: every strict prefix, every single-bit flip, all
//! byte strings of length <= 2, constant strings of every length 0..64.
use std::collections::{BTreeMap, HashMap};
use std::sync::Arc;

use serde_json::{json, Value};

use crate::blob::{FileState, FileStateVec};
use crate::current::CurrentFileStates;
use crate::history::{History, RuleHistory};
use crate::memsys::{Cfg, ClockModel, Fs, MemSystem};
use crate::refsha;
use crate::report::{Report, Violation};
use crate::ticket::{Ticket, TicketFactory};
use crate::world::{MFileState, MRuleHistory, MTable, MTicket, HISTORY_DIR, TABLE_FILE};

fn ticket(i: usize) -> Ticket
{
    TicketFactory::from_str(&format!("pool-{}", i)).result()
}

fn fresh_sys() -> MemSystem
{
    let mut fs = Fs::new();
    fs.put(".ruler/history/.keep", Arc::new(vec![]), 1, None);
    fs.put(".ruler/cache/.keep", Arc::new(vec![]), 1, None);
    MemSystem::new(fs, Cfg::plain(ClockModel::Strict))
}

/// histories with `n` entries of `k` targets each, drawn from a fixed pool in a few patterns
fn histories() -> Vec<RuleHistory>
{
    let mut out = vec![RuleHistory::new()];
    for n in 1..=3
    {
        for k in 1..=3
        {
            for shift in 0..3
            {
                let mut h = RuleHistory::new();
                for e in 0..n
                {
                    let v = FileStateVec::from_ticket_vec((0..k).map(|t| ticket(10 + (e * 3 + t + shift) % 7)).collect());
                    let _ = h.insert(ticket(e + shift), v);
                }
                out.push(h);
            }
        }
    }
    out
}

fn tables() -> Vec<Vec<(String, FileState)>>
{
    let names = ["t", "build/out.o", "a b"];
    let mut out = vec![vec![]];
    for n in 1..=3
    {
        for shift in 0..3
        {
            for exec in [false, true]
            {
                out.push((0..n).map(|i| (names[i].to_string(), FileState { ticket: ticket(i + shift), timestamp: 1_000_000 + (i as u64) * 17 + shift as u64, executable: exec && i == 0 })).collect());
            }
        }
    }
    out
}

struct Bad { map: BTreeMap<String, String> }
impl Bad { fn add(&mut self, w: &str, d: String) { self.map.entry(w.to_string()).or_insert(d); } }

fn read_history(bytes: &[u8]) -> Result<Result<RuleHistory, String>, ()>
{
    let sys = fresh_sys();
    let name = ticket(99);
    sys.with(|i| { let t = i.fs.tick(); i.fs.put(&format!("{}/{}", HISTORY_DIR, name), Arc::new(bytes.to_vec()), t, None); });
    let h = History::new(sys, HISTORY_DIR);
    std::panic::catch_unwind(move || h.read_rule_history(&name).map_err(|e| format!("{}", e))).map_err(|_| ())
}

fn read_table(bytes: &[u8], paths: Vec<String>) -> Result<Result<Vec<FileState>, String>, ()>
{
    let sys = fresh_sys();
    sys.with(|i| { let t = i.fs.tick(); i.fs.put(TABLE_FILE, Arc::new(bytes.to_vec()), t, None); });
    std::panic::catch_unwind(move ||
    {
        match CurrentFileStates::from_file(sys, TABLE_FILE.to_string())
        {
            Ok(mut c) =>
            {
                let blob = c.take_blob(paths);
                Ok(blob.get_file_infos().into_iter().map(|fi| fi.file_state).collect())
            },
            Err(e) => Err(format!("{}", e)),
        }
    }).map_err(|_| ())
}

pub fn run(rep: &mut Report, tier: &str)
{
    let thorough = tier == "thorough";
    let mut bad = Bad { map: BTreeMap::new() };
    let mut evals = 0u64;
    let mut instances = 0u64;
    let mut prefixes = 0u64;
    let mut flips = 0u64;
    let mut flips_accepted = 0u64;

    // --- rule histories: write with ruler's writer, read with ruler's reader
    for h in histories()
    {
        instances += 1;
        let sys = fresh_sys();
        let name = ticket(99);
        let mut hist = History::new(sys.clone(), HISTORY_DIR);
        if hist.write_rule_history(name.clone(), h.clone()).is_err() { bad.add("writing a rule history failed", format!("{}", h)); continue; }
        let back = History::new(sys.clone(), HISTORY_DIR).read_rule_history(&name);
        evals += 1;
        match back
        {
            Ok(b) => if b != h { bad.add("a rule history is not read back identically", format!("{} vs {}", h, b)); },
            Err(e) => bad.add("a rule history just written cannot be read", format!("{}", e)),
        }
        let bytes: Vec<u8> = sys.with(|i| i.fs.read(&format!("{}/{}", HISTORY_DIR, name)).map(|b| (*b).clone()).unwrap_or_default());
        // independent reading through mirror types agrees
        match bincode::deserialize::<MRuleHistory>(&bytes)
        {
            Ok(m) => { let n: usize = format!("{}", h).lines().filter(|l| l.starts_with("  ") && !l.starts_with("    ")).count(); if m.source_to_targets.len() != n { bad.add("serialised history has a different number of entries", format!("{} vs {}", m.source_to_targets.len(), n)); } },
            Err(_) => bad.add("serialised history is not the documented bincode map", String::new()),
        }
        // every strict prefix is rejected
        for cut in 0..bytes.len()
        {
            prefixes += 1;
            evals += 1;
            match read_history(&bytes[..cut])
            {
                Err(()) => bad.add("reading a truncated rule history panics", format!("prefix {} of {}", cut, bytes.len())),
                Ok(Ok(v)) => bad.add("a strict prefix of a rule history is accepted as valid", format!("prefix {} of {} reads as {}", cut, bytes.len(), v)),
                Ok(Err(_)) => {},
            }
        }
        // every single-bit flip: error or well-formed value, never a panic
        if bytes.len() <= 200 || thorough
        {
            for bit in 0..bytes.len() * 8
            {
                let mut b = bytes.clone();
                b[bit / 8] ^= 1 << (bit % 8);
                flips += 1;
                evals += 1;
                match read_history(&b)
                {
                    Err(()) => bad.add("reading a bit-flipped rule history panics", format!("bit {} of {} bytes", bit, bytes.len())),
                    Ok(Ok(_)) => flips_accepted += 1,
                    Ok(Err(_)) => {},
                }
            }
        }
    }

    // --- file-state tables
    for t in tables()
    {
        instances += 1;
        let sys = fresh_sys();
        let paths: Vec<String> = t.iter().map(|x| x.0.clone()).collect();
        {
            let mut c = match CurrentFileStates::from_file(sys.clone(), TABLE_FILE.to_string()) { Ok(c) => c, Err(e) => { bad.add("creating a table failed", format!("{}", e)); continue; } };
            for (p, st) in &t { c.insert_file_state(p.clone(), st.clone()); }
            if c.to_file().is_err() { bad.add("writing the table failed", String::new()); continue; }
        }
        let bytes: Vec<u8> = sys.with(|i| i.fs.read(TABLE_FILE).map(|b| (*b).clone()).unwrap_or_default());
        evals += 1;
        match read_table(&bytes, paths.clone())
        {
            Ok(Ok(states)) =>
            {
                let want: Vec<FileState> = t.iter().map(|x| x.1.clone()).collect();
                if states != want { bad.add("the file-state table is not read back identically", format!("{:?} vs {:?}", want, states)); }
            },
            Ok(Err(e)) => bad.add("a table just written cannot be read", e),
            Err(()) => bad.add("reading a table just written panics", String::new()),
        }
        match bincode::deserialize::<MTable>(&bytes)
        {
            Ok(m) => if m.file_states.len() != t.len() { bad.add("serialised table has a different number of entries", String::new()); },
            Err(_) => bad.add("serialised table is not the documented bincode map", String::new()),
        }
        for cut in 0..bytes.len()
        {
            prefixes += 1;
            evals += 1;
            match read_table(&bytes[..cut], paths.clone())
            {
                Err(()) => bad.add("reading a truncated table panics", format!("prefix {} of {}", cut, bytes.len())),
                Ok(Ok(_)) => bad.add("a strict prefix of a file-state table is accepted as valid", format!("prefix {} of {}", cut, bytes.len())),
                Ok(Err(_)) => {},
            }
        }
        if bytes.len() <= 200 || thorough
        {
            for bit in 0..bytes.len() * 8
            {
                let mut b = bytes.clone();
                b[bit / 8] ^= 1 << (bit % 8);
                flips += 1;
                evals += 1;
                match read_table(&b, paths.clone())
                {
                    Err(()) => bad.add("reading a bit-flipped table panics", format!("bit {} of {} bytes", bit, bytes.len())),
                    Ok(Ok(_)) => flips_accepted += 1,
                    Ok(Err(_)) => {},
                }
            }
        }
    }

    // --- arbitrary bytes: every string of length <= 2, constant strings of length 0..64
    let mut arbitrary = 0u64;
    let mut tiny: Vec<Vec<u8>> = vec![vec![]];
    for a in 0..=255u8 { tiny.push(vec![a]); }
    for a in 0..=255u8 { for b in 0..=255u8 { tiny.push(vec![a, b]); } }
    for len in 0..=64usize { for c in [0u8, 1, 0x7f, 0xff] { tiny.push(vec![c; len]); } }
    for t in tiny
    {
        arbitrary += 2;
        evals += 2;
        match read_history(&t)
        {
            Err(()) => bad.add("reading arbitrary bytes as a rule history panics", format!("{:?}", &t[..t.len().min(8)])),
            Ok(Ok(h)) => { if t.len() < 8 { bad.add("fewer than 8 bytes are accepted as a rule history", format!("{:?} reads as {}", t, h)); } },
            Ok(Err(_)) => {},
        }
        match read_table(&t, vec!["t".to_string()])
        {
            Err(()) => bad.add("reading arbitrary bytes as a file-state table panics", format!("{:?}", &t[..t.len().min(8)])),
            Ok(Ok(_)) => { if t.len() < 8 { bad.add("fewer than 8 bytes are accepted as a file-state table", format!("{:?}", t)); } },
            Ok(Err(_)) => {},
        }
    }

    rep.set("evaluations", json!(evals));
    rep.set("states", json!(instances));
    rep.set("transitions", json!(evals));
    rep.set("traces_validated_against_impl", json!(evals));
    rep.set("distinct_nontrivial", json!(instances));
    rep.set("instances", json!(instances));
    rep.set("strict_prefixes", json!(prefixes));
    rep.set("single_bit_flips", json!(flips));
    rep.set("bit_flips_read_as_wellformed_other_data", json!(flips_accepted));
    rep.set("arbitrary_byte_strings", json!(arbitrary));
    rep.set("exhaustive", json!(true));
    rep.set("rule", json!("rule histories with 0..3 entries x 1..3 targets and tables with 0..3 paths from a fixed pool: round trip, every strict prefix, every single-bit flip; all byte strings of length <= 2; constant strings of length 0..64"));
    rep.push_sample(json!({"history_entries": 2, "targets": 3, "check": "every strict prefix of its 258 bytes is rejected"}));
    for (what, detail) in bad.map
    {
        rep.violation(Violation
        {
            property: "C16".into(),
            signature: format!("C16:state:{}", what),
            summary: format!("{}: {}", what, detail),
            replay: json!({"engine": "state", "what": what}),
        });
    }
}
