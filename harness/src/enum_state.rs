//! `enum state` — C16: saved state round-trips exactly; damaged state is rejected, not
//! misread.  Small-scope instances: every strict prefix, every single-bit flip, all
//! byte strings of length <= 2, constant strings of every length 0..64.
use std::collections::{BTreeMap, HashMap};
use std::sync::Arc;

use serde_json::{json, Value};

use crate::blob::{FileState, FileStateVec};
use crate::current::CurrentFileStates;
use crate::history::{History, RuleHistory};
use crate::memsys::{Cfg, ClockModel, Fs, MemSystem};
use crate::refsha;
use crate::report::{Report, Violation};
use crate::ticket::{Ticket, TicketFactory};
use crate::world::{MFileState, MRuleHistory, MTable, MTicket, HISTORY_DIR, TABLE_FILE};

fn ticket(i: usize) -> Ticket
{
    TicketFactory::from_str(&format!("pool-{}", i)).result()
}

fn fresh_sys() -> MemSystem
{
    let mut fs = Fs::new();
    fs.put(".ruler/history/.keep", Arc::new(vec![]), 1, None);
    fs.put(".ruler/cache/.keep", Arc::new(vec![]), 1, None);
    MemSystem::new(fs, Cfg::plain(ClockModel::Strict))
}

/// histories with `n` entries of `k` targets each, drawn from a fixed pool in a few patterns
fn histories() -> Vec<RuleHistory>
{
    let mut out = vec![RuleHistory::new()];
    for n in 1..=3
    {
        for k in 1..=3
        {
            for shift in 0..3
            {
                let mut h = RuleHistory::new();
                for e in 0..n
                {
                    let v = FileStateVec::from_ticket_vec((0..k).map(|t| ticket(10 + (e * 3 + t + shift) % 7)).collect());
                    let _ = h.insert(ticket(e + shift), v);
                }
                out.push(h);
            }
        }
    }
    out
}

fn tables() -> Vec<Vec<(String, FileState)>>
{
    let names = ["t", "build/out.o", "a b"];
    let mut out = vec![vec![]];
    for n in 1..=3
    {
        for shift in 0..3
        {
            for exec in [false, true]
            {
                out.push((0..n).map(|i| (names[i].to_string(), FileState { ticket: ticket(i + shift), timestamp: 1_000_000 + (i as u64) * 17 + shift as u64, executable: exec && i == 0 })).collect());
            }
        }
    }
    out
}

struct Bad { map: BTreeMap<String, String> }
impl Bad { fn add(&mut self, w: &str, d: String) { self.map.entry(w.to_string()).or_insert(d); } }

fn read_history(bytes: &[u8]) -> Result<Result<RuleHistory, String>, ()>
{
    let sys = fresh_sys();
    let name = ticket(99);
    sys.with(|i| { let t = i.fs.tick(); i.fs.put(&format!("{}/{}", HISTORY_DIR, name), Arc::new(bytes.to_vec()), t, None); });
    let h = History::new(sys, HISTORY_DIR);
    std::panic::catch_unwind(move || h.read_rule_history(&name).map_err(|e| format!("{}", e))).map_err(|_| ())
}

fn read_table(bytes: &[u8], paths: Vec<String>) -> Result<Result<Vec<FileState>, String>, ()>
{
    let sys = fresh_sys();
    sys.with(|i| { let t = i.fs.tick(); i.fs.put(TABLE_FILE, Arc::new(bytes.to_vec()), t, None); });
    std::panic::catch_unwind(move ||
    {
        match CurrentFileStates::from_file(sys, TABLE_FILE.to_string())
        {
            Ok(mut c) =>
            {
                let blob = c.take_blob(paths);
                Ok(blob.get_file_infos().into_iter().map(|fi| fi.file_state).collect())
            },
            Err(e) => Err(format!("{}", e)),
        }
    }).map_err(|_| ())
}

/// The whole enumeration.  `progress` is told which item is about to be read, so that a
/// process-killing failure (allocation bomb -> abort) can be attributed by the parent.
fn sweep(tier: &str, progress: &mut dyn FnMut(&str)) -> (serde_json::Map<String, Value>, BTreeMap<String, String>)
{
    let thorough = tier == "thorough";
    let mut rep_map: serde_json::Map<String, Value> = serde_json::Map::new();
    let mut samples: Vec<Value> = vec![];
    let mut bad = Bad { map: BTreeMap::new() };
    let mut evals = 0u64;
    let mut instances = 0u64;
    let mut prefixes = 0u64;
    let mut flips = 0u64;
    let mut flips_accepted = 0u64;

    // --- rule histories: write with ruler's writer, read with ruler's reader
    for h in histories()
    {
        instances += 1;
        let sys = fresh_sys();
        let name = ticket(99);
        let mut hist = History::new(sys.clone(), HISTORY_DIR);
        if hist.write_rule_history(name.clone(), h.clone()).is_err() { bad.add("writing a rule history failed", format!("{}", h)); continue; }
        let back = History::new(sys.clone(), HISTORY_DIR).read_rule_history(&name);
        evals += 1;
        match back
        {
            Ok(b) => if b != h { bad.add("a rule history is not read back identically", format!("{} vs {}", h, b)); },
            Err(e) => bad.add("a rule history just written cannot be read", format!("{}", e)),
        }
        let bytes: Vec<u8> = sys.with(|i| i.fs.read(&format!("{}/{}", HISTORY_DIR, name)).map(|b| (*b).clone()).unwrap_or_default());
        // independent reading through mirror types agrees
        match bincode::deserialize::<MRuleHistory>(&bytes)
        {
            Ok(m) => { let n: usize = format!("{}", h).lines().filter(|l| l.starts_with("  ") && !l.starts_with("    ")).count(); if m.source_to_targets.len() != n { bad.add("serialised history has a different number of entries", format!("{} vs {}", m.source_to_targets.len(), n)); } },
            Err(_) => bad.add("serialised history is not the documented bincode map", String::new()),
        }
        // every strict prefix is rejected
        for cut in 0..bytes.len()
        {
            prefixes += 1;
            evals += 1;
            progress(&format!("rule history, prefix {} of {} bytes", cut, bytes.len()));
            match read_history(&bytes[..cut])
            {
                Err(()) => bad.add("reading a truncated rule history panics", format!("prefix {} of {}", cut, bytes.len())),
                Ok(Ok(v)) => bad.add("a strict prefix of a rule history is accepted as valid", format!("prefix {} of {} reads as {}", cut, bytes.len(), v)),
                Ok(Err(_)) => {},
            }
        }
        // every single-bit flip: error or well-formed value, never a panic
        if bytes.len() <= 200 || thorough
        {
            for bit in 0..bytes.len() * 8
            {
                let mut b = bytes.clone();
                b[bit / 8] ^= 1 << (bit % 8);
                flips += 1;
                evals += 1;
                progress(&format!("rule history of {} bytes, bit {} flipped", bytes.len(), bit));
                match read_history(&b)
                {
                    Err(()) => bad.add("reading a bit-flipped rule history panics", format!("bit {} of {} bytes", bit, bytes.len())),
                    Ok(Ok(_)) => flips_accepted += 1,
                    Ok(Err(_)) => {},
                }
            }
        }
    }

    // --- file-state tables
    for t in tables()
    {
        instances += 1;
        let sys = fresh_sys();
        let paths: Vec<String> = t.iter().map(|x| x.0.clone()).collect();
        {
            let mut c = match CurrentFileStates::from_file(sys.clone(), TABLE_FILE.to_string()) { Ok(c) => c, Err(e) => { bad.add("creating a table failed", format!("{}", e)); continue; } };
            for (p, st) in &t { c.insert_file_state(p.clone(), st.clone()); }
            if c.to_file().is_err() { bad.add("writing the table failed", String::new()); continue; }
        }
        let bytes: Vec<u8> = sys.with(|i| i.fs.read(TABLE_FILE).map(|b| (*b).clone()).unwrap_or_default());
        evals += 1;
        match read_table(&bytes, paths.clone())
        {
            Ok(Ok(states)) =>
            {
                let want: Vec<FileState> = t.iter().map(|x| x.1.clone()).collect();
                if states != want { bad.add("the file-state table is not read back identically", format!("{:?} vs {:?}", want, states)); }
            },
            Ok(Err(e)) => bad.add("a table just written cannot be read", e),
            Err(()) => bad.add("reading a table just written panics", String::new()),
        }
        match bincode::deserialize::<MTable>(&bytes)
        {
            Ok(m) => if m.file_states.len() != t.len() { bad.add("serialised table has a different number of entries", String::new()); },
            Err(_) => bad.add("serialised table is not the documented bincode map", String::new()),
        }
        for cut in 0..bytes.len()
        {
            prefixes += 1;
            evals += 1;
            progress(&format!("file-state table, prefix {} of {} bytes", cut, bytes.len()));
            match read_table(&bytes[..cut], paths.clone())
            {
                Err(()) => bad.add("reading a truncated table panics", format!("prefix {} of {}", cut, bytes.len())),
                Ok(Ok(_)) => bad.add("a strict prefix of a file-state table is accepted as valid", format!("prefix {} of {}", cut, bytes.len())),
                Ok(Err(_)) => {},
            }
        }
        if bytes.len() <= 200 || thorough
        {
            for bit in 0..bytes.len() * 8
            {
                let mut b = bytes.clone();
                b[bit / 8] ^= 1 << (bit % 8);
                flips += 1;
                evals += 1;
                progress(&format!("file-state table of {} bytes, bit {} flipped (byte {} bit {})", bytes.len(), bit, bit / 8, bit % 8));
                match read_table(&b, paths.clone())
                {
                    Err(()) => bad.add("reading a bit-flipped table panics", format!("bit {} of {} bytes", bit, bytes.len())),
                    Ok(Ok(_)) => flips_accepted += 1,
                    Ok(Err(_)) => {},
                }
            }
        }
    }

    // --- every shape of the stated range (0..=50 entries x 1..=8 targets) and some far larger ones:
    //     round trip through ruler's writer and reader; structured cuts of the large serialisations
    let mut shapes = 0u64;
    let mut big_cuts = 0u64;
    {
        let mut dims: Vec<(usize, usize)> = vec![];
        for n in 0..=50usize { for k in 1..=8usize { dims.push((n, k)); } }
        for d in [(99usize, 1usize), (203, 1), (256, 1), (257, 3), (500, 8), (1200, 1)] { dims.push(d); }
        if thorough { dims.push((5000, 2)); }
        for (n, k) in dims
        {
            shapes += 1;
            evals += 1;
            progress(&format!("rule history with {} entries of {} targets", n, k));
            let mut h = RuleHistory::new();
            for e in 0..n
            {
                let v = FileStateVec::from_ticket_vec((0..k).map(|t| ticket(100_000 + e * k + t)).collect());
                let _ = h.insert(ticket(e), v);
            }
            let sys = fresh_sys();
            let name = ticket(99_999);
            let mut hist = History::new(sys.clone(), HISTORY_DIR);
            if hist.write_rule_history(name.clone(), h.clone()).is_err() { bad.add("writing a rule history failed", format!("{} entries of {} targets", n, k)); continue; }
            match std::panic::catch_unwind(|| History::new(sys.clone(), HISTORY_DIR).read_rule_history(&name))
            {
                Ok(Ok(b)) => if b != h { bad.add("a rule history is not read back identically", format!("{} entries of {} targets", n, k)); },
                Ok(Err(e)) => bad.add("a rule history just written cannot be read", format!("{} entries of {} targets: {}", n, k, e)),
                Err(_) => bad.add("reading a rule history just written panics", format!("{} entries of {} targets", n, k)),
            }
            let bytes: Vec<u8> = sys.with(|i| i.fs.read(&format!("{}/{}", HISTORY_DIR, name)).map(|b| (*b).clone()).unwrap_or_default());
            if bytes.len() > 2000 && n >= 99
            {
                let mut cuts: Vec<usize> = (0..64).collect();
                cuts.extend((bytes.len() - 64)..bytes.len());
                let mut p = 256usize;
                while p < bytes.len() { for d in [p - 1, p, p + 1] { if d < bytes.len() { cuts.push(d); } } p *= 2; }
                let mut m = 4096usize;
                while m < bytes.len() { cuts.push(m); m += 4096; }
                cuts.sort();
                cuts.dedup();
                for cut in cuts
                {
                    big_cuts += 1;
                    prefixes += 1;
                    evals += 1;
                    progress(&format!("rule history of {} bytes, prefix {}", bytes.len(), cut));
                    match read_history(&bytes[..cut])
                    {
                        Err(()) => bad.add("reading a truncated rule history panics", format!("prefix {} of {}", cut, bytes.len())),
                        Ok(Ok(_)) => bad.add("a strict prefix of a rule history is accepted as valid", format!("prefix {} of {}", cut, bytes.len())),
                        Ok(Err(_)) => {},
                    }
                }
            }
        }
        for n in (0..=50usize).chain([300usize, 2000])
        {
            shapes += 1;
            evals += 1;
            progress(&format!("file-state table with {} paths", n));
            let sys = fresh_sys();
            let t: Vec<(String, FileState)> = (0..n).map(|i| (format!("dir{}/file-{}.o", i % 7, i), FileState { ticket: ticket(i), timestamp: 1_000_000 + i as u64, executable: i % 3 == 0 })).collect();
            {
                let mut c = match CurrentFileStates::from_file(sys.clone(), TABLE_FILE.to_string()) { Ok(c) => c, Err(e) => { bad.add("creating a table failed", format!("{}", e)); continue; } };
                for (p, st) in &t { c.insert_file_state(p.clone(), st.clone()); }
                if c.to_file().is_err() { bad.add("writing the table failed", format!("{} paths", n)); continue; }
            }
            let bytes: Vec<u8> = sys.with(|i| i.fs.read(TABLE_FILE).map(|b| (*b).clone()).unwrap_or_default());
            match read_table(&bytes, t.iter().map(|x| x.0.clone()).collect())
            {
                Ok(Ok(states)) => if states != t.iter().map(|x| x.1.clone()).collect::<Vec<_>>() { bad.add("the file-state table is not read back identically", format!("{} paths", n)); },
                Ok(Err(e)) => bad.add("a table just written cannot be read", format!("{} paths: {}", n, e)),
                Err(()) => bad.add("reading a table just written panics", format!("{} paths", n)),
            }
        }
    }

    // --- successive invocations on ONE file: what the last one recorded is what the next one reads, also
    //     when the table or the history shrinks (3 entries, then none, then 2, then none, then 1)
    {
        let sys = fresh_sys();
        let names: Vec<String> = (0..3).map(|i| format!("out/f{}.o", i)).collect();
        for (step, n) in [3usize, 0, 2, 0, 1].iter().enumerate()
        {
            evals += 1;
            progress(&format!("successive tables in one file, step {} ({} entries)", step, n));
            {
                let mut c = match CurrentFileStates::from_file(sys.clone(), TABLE_FILE.to_string()) { Ok(c) => c, Err(e) => { bad.add("a table written by the previous invocation cannot be read", format!("step {}: {}", step, e)); break; } };
                let _ = c.take_blob(names.clone());
                for i in 0..*n { c.insert_file_state(names[i].clone(), FileState { ticket: ticket(step * 10 + i), timestamp: 5_000 + step as u64, executable: i == 1 }); }
                if c.to_file().is_err() { bad.add("writing the table failed", format!("step {}", step)); break; }
            }
            match read_table(&sys.with(|i| i.fs.read(TABLE_FILE).map(|b| (*b).clone()).unwrap_or_default()), names.clone())
            {
                Ok(Ok(states)) =>
                {
                    let want: Vec<FileState> = (0..3).map(|i| if i < *n { FileState { ticket: ticket(step * 10 + i), timestamp: 5_000 + step as u64, executable: i == 1 } } else { FileState::empty() }).collect();
                    if states != want { bad.add("the next invocation does not read what the last one recorded (one file, several invocations)", format!("step {} with {} entries: {:?}", step, n, states.iter().map(|s| s.timestamp).collect::<Vec<_>>())); }
                },
                Ok(Err(e)) => bad.add("a table just written cannot be read", format!("step {}: {}", step, e)),
                Err(()) => bad.add("reading a table just written panics", format!("step {}", step)),
            }
        }
    }

    // --- arbitrary bytes: every string of length <= 2, constant strings of length 0..64
    let mut arbitrary = 0u64;
    let mut tiny: Vec<Vec<u8>> = vec![vec![]];
    for a in 0..=255u8 { tiny.push(vec![a]); }
    for a in 0..=255u8 { for b in 0..=255u8 { tiny.push(vec![a, b]); } }
    for len in 0..=64usize { for c in [0u8, 1, 0x7f, 0xff] { tiny.push(vec![c; len]); } }
    for t in tiny
    {
        arbitrary += 2;
        evals += 2;
        progress(&format!("arbitrary bytes {:?} (length {})", &t[..t.len().min(4)], t.len()));
        match read_history(&t)
        {
            Err(()) => bad.add("reading arbitrary bytes as a rule history panics", format!("{:?}", &t[..t.len().min(8)])),
            Ok(Ok(h)) => { if t.len() < 8 { bad.add("fewer than 8 bytes are accepted as a rule history", format!("{:?} reads as {}", t, h)); } },
            Ok(Err(_)) => {},
        }
        match read_table(&t, vec!["t".to_string()])
        {
            Err(()) => bad.add("reading arbitrary bytes as a file-state table panics", format!("{:?}", &t[..t.len().min(8)])),
            Ok(Ok(_)) => { if t.len() < 8 { bad.add("fewer than 8 bytes are accepted as a file-state table", format!("{:?}", t)); } },
            Ok(Err(_)) => {},
        }
    }

    let mut set = |k: &str, v: Value| { rep_map.insert(k.to_string(), v); };
    set("evaluations", json!(evals));
    set("states", json!(instances));
    set("transitions", json!(evals));
    set("traces_validated_against_impl", json!(evals));
    set("distinct_nontrivial", json!(instances));
    set("instances", json!(instances));
    set("strict_prefixes", json!(prefixes));
    set("single_bit_flips", json!(flips));
    set("bit_flips_read_as_wellformed_other_data", json!(flips_accepted));
    set("arbitrary_byte_strings", json!(arbitrary));
    set("round_trip_shapes", json!(shapes));
    set("structured_prefixes_of_large_files", json!(big_cuts));
    set("exhaustive", json!(true));
    set("rule", json!("rule histories with 0..3 entries x 1..3 targets and tables with 0..3 paths from a fixed pool: round trip, every strict prefix, every single-bit flip; round trip of every shape 0..50 entries x 1..8 targets, of tables with 0..50 paths and of a few far larger ones (up to 1200 entries / 2000 paths; structured prefixes of those: first and last 64 cuts, powers of two +-1, multiples of 4096); all byte strings of length <= 2; constant strings of length 0..64; run in a child process with a 6 GB address-space limit so that an allocation bomb is a verdict, not a crash of the checker"));
    samples.push(json!({"history_entries": 2, "targets": 3, "check": "every strict prefix of its bytes is rejected"}));
    samples.push(json!({"table_paths": ["t", "build/out.o", "a b"], "check": "every single-bit flip gives an error or well-formed other data"}));
    rep_map.insert("samples".to_string(), json!(samples));
    (rep_map, bad.map)
}

/// child mode: prints "ITEM ..." before every risky read and a final "RESULT {json}"
pub fn child_main(tier: &str) -> i32
{
    use std::io::Write;
    let out = std::io::stdout();
    let mut progress = |d: &str| { let mut o = out.lock(); let _ = writeln!(o, "ITEM {}", d); let _ = o.flush(); };
    let (cov, bad) = sweep(tier, &mut progress);
    let mut o = out.lock();
    let _ = writeln!(o, "RESULT {}", json!({"coverage": cov, "bad": bad}));
    let _ = o.flush();
    0
}

pub fn run(rep: &mut Report, tier: &str)
{
    use std::process::{Command, Stdio};
    let exe = match std::env::current_exe() { Ok(e) => e, Err(e) => { rep.machinery(format!("cannot find own executable: {}", e)); return; } };
    let cmd = format!("ulimit -v 6000000; exec '{}' c16-child --tier {}", exe.display(), tier);
    // run the child with a time limit: a reader that never returns is a verdict too
    let limit = std::time::Duration::from_secs(if tier == "thorough" { 1500 } else { 300 });
    let mut child = match Command::new("sh").arg("-c").arg(&cmd).stdout(Stdio::piped()).stderr(Stdio::null()).spawn()
    {
        Ok(c) => c,
        Err(e) => { rep.machinery(format!("cannot start child: {}", e)); return; },
    };
    let mut out_pipe = child.stdout.take().expect("child stdout");
    let reader = std::thread::spawn(move || { let mut v = vec![]; let _ = std::io::Read::read_to_end(&mut out_pipe, &mut v); v });
    let started = std::time::Instant::now();
    let mut timed_out = false;
    let status = loop
    {
        match child.try_wait()
        {
            Ok(Some(st)) => break Some(st),
            Ok(None) => {},
            Err(_) => break None,
        }
        if started.elapsed() > limit { timed_out = true; let _ = child.kill(); let _ = child.wait(); break None; }
        std::thread::sleep(std::time::Duration::from_millis(50));
    };
    let stdout_bytes = reader.join().unwrap_or_default();
    struct Outp { status_ok: bool, code: Option<i32> }
    let outp = Outp { status_ok: status.map(|s| s.success()).unwrap_or(false), code: status.and_then(|s| s.code()) };
    let text = String::from_utf8_lossy(&stdout_bytes).to_string();
    let last_item = text.lines().rev().find(|l| l.starts_with("ITEM ")).map(|l| l[5..].to_string()).unwrap_or_default();
    let result = text.lines().rev().find(|l| l.starts_with("RESULT ")).and_then(|l| serde_json::from_str::<Value>(&l[7..]).ok());
    match result
    {
        Some(v) if outp.status_ok =>
        {
            if let Some(m) = v["coverage"].as_object() { for (k, x) in m { rep.set(k, x.clone()); } }
            if let Some(m) = v["bad"].as_object()
            {
                for (what, detail) in m
                {
                    rep.violation(Violation
                    {
                        property: "C16".into(),
                        signature: format!("C16:state:{}", what),
                        summary: format!("{}: {}", what, detail.as_str().unwrap_or("")),
                        replay: json!({"engine": "state", "what": what}),
                    });
                }
            }
        },
        _ =>
        {
            // the child died: the item it had announced last killed the process
            let items = text.lines().filter(|l| l.starts_with("ITEM ")).count();
            rep.set("evaluations", json!(items));
            rep.set("states", json!(1));
            rep.set("transitions", json!(items));
            rep.set("traces_validated_against_impl", json!(items));
            rep.set("distinct_nontrivial", json!(2));
            rep.set("exhaustive", json!(false));
            rep.push_sample(json!({"last_item_before_the_reader_died": last_item}));
            let what = if timed_out { "reading a state file does not return" } else { "reading a damaged state file kills the process (abort / allocation failure) instead of returning an error" };
            rep.violation(Violation
            {
                property: "C16".into(),
                signature: format!("C16:state:{}", what),
                summary: format!("{}: child exit {:?} while reading: {}", what, outp.code, last_item),
                replay: json!({"engine": "state", "what": what}),
            });
        },
    }
}
