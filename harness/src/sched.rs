//! Controlled scheduling of the real `build()` / `clean()`.
//!
//! shuttle runs every "thread" of ruler as a coroutine on the calling OS thread and
//! asks a `Scheduler` which task runs next at every scheduling point.  Through the
//! shim (`crate::verif_shim`) and `MemSystem`, every visible operation — spawn, join,
//! thread start/exit, channel send / receive / endpoint drop, every file-system call,
//! the start of every command — is preceded by exactly one scheduling point, and the
//! task *declares* the operation before yielding.  So at every scheduling point the
//! scheduler knows the next operation of every runnable task.
//!
//! We do not use shuttle's own schedulers.  `Ctl` below
//!
//!  * replays a given *prefix* of choices (an out-of-range choice is a hard
//!    "divergence" error: it would mean nondeterminism we do not own),
//!  * after the prefix takes, at every point, the first allowed option of the
//!    canonical option list (the running task if still runnable, then ascending ids),
//!  * records every choice point: options, their declared operations, the sleep set.
//!
//! Engines enumerate schedules statelessly on top of this: a work item is a choice
//! prefix; it is run to completion with default choices.  Two exploration modes:
//!
//!  * **plain, preemption-bounded**: one child for every later choice point and every
//!    alternative whose preemption count stays within the bound.  Every schedule with at
//!    most c preemptions is run exactly once.
//!  * **DPOR** (Flanagan & Godefroid 2005), unbounded: the complete step trace (task,
//!    declared operation, runnable set) is analysed with vector clocks; for every pair of
//!    *dependent* operations of different tasks that are not ordered by happens-before
//!    (a race), the alternative that reverses them is scheduled at the node before the
//!    first one (all runnable tasks if the second task was not runnable there).
//!    Dependence is decided from declared footprints (`independent`), conservatively:
//!    channel operations on different channels, file operations on different paths (or
//!    two reads), and thread-local operations commute.  At the fixpoint at least one
//!    schedule of every Mazurkiewicz trace has been run, with no preemption bound.
//!
//! A task whose declared operation is a receive on an empty channel with a live sender is
//! treated as not runnable ("virtual blocking"): running it would only block it.
use std::any::Any;
use std::cell::RefCell;
use std::collections::HashMap;
use std::panic;
use std::rc::Rc;

use shuttle::scheduler::{Schedule, Scheduler, Task, TaskId};

// ---------------------------------------------------------------------------
// Declared operations

#[derive(Clone, Debug, PartialEq, Eq)]
pub enum OpDesc
{
    /// touches no shared object
    Local(&'static str),
    /// spawn / start / exit / join of thread `n`: ordered among themselves, independent of the rest
    Thread(usize, &'static str),
    /// any operation on channel `id` (send, recv, drop of an endpoint)
    Chan(usize, &'static str),
    /// file-system call: paths read, paths written
    Fs { reads: Vec<String>, writes: Vec<String>, what: &'static str },
    /// not declared: dependent with everything
    Unknown,
}

fn path_conflict(a: &str, b: &str) -> bool
{
    // equal paths; or one is a directory-listing mark "dir/" and the other lies below it
    if a == b
    {
        return true;
    }
    (a.ends_with('/') && b.starts_with(a)) || (b.ends_with('/') && a.starts_with(b))
}

/// Conservative independence of two declared operations of *different* tasks.
pub fn independent(a: &OpDesc, b: &OpDesc) -> bool
{
    match (a, b)
    {
        (OpDesc::Unknown, _) | (_, OpDesc::Unknown) => false,
        (OpDesc::Local(_), _) | (_, OpDesc::Local(_)) => true,
        (OpDesc::Thread(x, _), OpDesc::Thread(y, _)) => x != y,
        (OpDesc::Thread(..), _) | (_, OpDesc::Thread(..)) => true,
        // same channel: only send/recv (ordering) and send/drop-receiver (a send on a channel
        // without receiver fails) do not commute; a receive is enabled only when a message is
        // queued or the sender is gone, so it commutes with the sender's drop; the two drops commute
        (OpDesc::Chan(x, k1), OpDesc::Chan(y, k2)) => x != y || !matches!((*k1, *k2),
            ("send", "recv") | ("recv", "send") | ("send", "drop-receiver") | ("drop-receiver", "send")),
        (OpDesc::Chan(..), OpDesc::Fs { .. }) | (OpDesc::Fs { .. }, OpDesc::Chan(..)) => true,
        (OpDesc::Fs { reads: ra, writes: wa, .. }, OpDesc::Fs { reads: rb, writes: wb, .. }) =>
        {
            for w in wa
            {
                if rb.iter().any(|p| path_conflict(w, p)) || wb.iter().any(|p| path_conflict(w, p))
                {
                    return false;
                }
            }
            for w in wb
            {
                if ra.iter().any(|p| path_conflict(w, p))
                {
                    return false;
                }
            }
            true
        },
    }
}

thread_local! {
    static PENDING: RefCell<HashMap<usize, OpDesc>> = RefCell::new(HashMap::new());
    static CHAN_IDS: RefCell<usize> = RefCell::new(0);
    static THREAD_IDS: RefCell<usize> = RefCell::new(0);
    /// channel id -> (messages queued, sender alive)
    static CHAN_STATE: RefCell<HashMap<usize, (usize, bool)>> = RefCell::new(HashMap::new());
    static BODY: RefCell<Option<Box<dyn FnOnce()>>> = RefCell::new(None);
    static LAST_PANIC: RefCell<Option<String>> = RefCell::new(None);
}

thread_local! {
    static IN_EXEC: std::cell::Cell<bool> = std::cell::Cell::new(false);
}

/// true while this OS thread is inside a controlled execution (shuttle's own query panics outside)
pub fn in_execution() -> bool
{
    IN_EXEC.with(|c| c.get())
}

pub fn current_task_id() -> Option<usize>
{
    if in_execution() { shuttle::current::get_current_task().map(usize::from) } else { None }
}

/// Declare the operation the current task performs after its next scheduling point.
pub fn declare(op: OpDesc)
{
    if let Some(t) = current_task_id()
    {
        PENDING.with(|p| { p.borrow_mut().insert(t, op); });
    }
}

pub fn fresh_channel_id() -> usize
{
    let id = CHAN_IDS.with(|c| { let mut c = c.borrow_mut(); *c += 1; *c });
    CHAN_STATE.with(|m| { m.borrow_mut().insert(id, (0, true)); });
    id
}

pub fn fresh_thread_id() -> usize
{
    THREAD_IDS.with(|c| { let mut c = c.borrow_mut(); *c += 1; *c })
}

pub fn chan_sent(id: usize)
{
    CHAN_STATE.with(|m| { if let Some(e) = m.borrow_mut().get_mut(&id) { e.0 += 1; } });
}

pub fn chan_received(id: usize)
{
    CHAN_STATE.with(|m| { if let Some(e) = m.borrow_mut().get_mut(&id) { if e.0 > 0 { e.0 -= 1; } } });
}

pub fn chan_sender_dropped(id: usize)
{
    CHAN_STATE.with(|m| { if let Some(e) = m.borrow_mut().get_mut(&id) { e.1 = false; } });
}

/// a receive on an empty channel whose sender is alive would only block
fn virtually_blocked(op: &OpDesc) -> bool
{
    match op
    {
        OpDesc::Chan(id, "recv") => CHAN_STATE.with(|m| match m.borrow().get(id) { Some((0, true)) => true, _ => false }),
        _ => false,
    }
}

fn pending_of(t: usize) -> OpDesc
{
    PENDING.with(|p| p.borrow().get(&t).cloned().unwrap_or(OpDesc::Local("fresh")))
}

// ---------------------------------------------------------------------------

#[derive(Clone, Debug)]
pub struct Step
{
    pub task: u8,
    pub op: OpDesc,
    /// runnable tasks in canonical order (after virtual blocking); len 1 = forced
    pub options: Vec<u8>,
    /// index into `choices` if this was a choice point
    pub choice: Option<u16>,
    pub cur_enabled: bool,
}

#[derive(Clone, Debug, Default)]
pub struct Trace
{
    /// choice taken at each choice point (index into the canonical option list)
    pub choices: Vec<u8>,
    /// number of options / whether the running task was runnable, per choice point
    pub width: Vec<u8>,
    pub cur_enabled: Vec<bool>,
    /// every scheduling point (only recorded when the job asks for `full`)
    pub steps_full: Vec<Step>,
    /// scheduling points including forced ones
    pub steps: usize,
}

impl Trace
{
    pub fn preemptions(&self, upto: usize) -> usize
    {
        (0..upto.min(self.choices.len())).filter(|&i| self.cur_enabled[i] && self.choices[i] != 0).count()
    }
}

#[derive(Debug)]
pub struct Outcome
{
    pub trace: Trace,
    /// panic message (task panic, deadlock, step bound, divergence); None = ran to completion
    pub failure: Option<String>,
}

pub struct Job
{
    pub prefix: Vec<u8>,
    /// record the complete step trace (needed by DPOR)
    pub full: bool,
    pub body: Box<dyn FnOnce()>,
}

impl Job
{
    pub fn serial(body: Box<dyn FnOnce()>) -> Job
    {
        Job { prefix: vec![], full: false, body }
    }
}

pub trait Driver
{
    fn next_job(&mut self) -> Option<Job>;
    fn done(&mut self, outcome: Outcome);
}

struct CtlState
{
    prefix: Vec<u8>,
    pos: usize,
    full: bool,
    trace: Trace,
    active: bool,
}

struct Ctl<D: Driver>
{
    st: Rc<RefCell<CtlState>>,
    driver: Rc<RefCell<D>>,
}

pub const DIVERGENCE: &str = "HARNESS-DIVERGENCE";

impl<D: Driver> Scheduler for Ctl<D>
{
    fn new_execution(&mut self) -> Option<Schedule>
    {
        let finished =
        {
            let mut st = self.st.borrow_mut();
            if st.active
            {
                st.active = false;
                Some(std::mem::take(&mut st.trace))
            }
            else
            {
                None
            }
        };
        if let Some(trace) = finished
        {
            self.driver.borrow_mut().done(Outcome { trace, failure: None });
        }
        let job = self.driver.borrow_mut().next_job()?;
        let Job { prefix, full, body } = job;
        let mut st = self.st.borrow_mut();
        st.prefix = prefix;
        st.pos = 0;
        st.full = full;
        st.trace = Trace::default();
        st.active = true;
        PENDING.with(|p| p.borrow_mut().clear());
        CHAN_IDS.with(|c| *c.borrow_mut() = 0);
        THREAD_IDS.with(|c| *c.borrow_mut() = 0);
        CHAN_STATE.with(|c| c.borrow_mut().clear());
        BODY.with(|b| *b.borrow_mut() = Some(body));
        Some(Schedule::new(0))
    }

    fn next_task(&mut self, runnable: &[&Task], current: Option<TaskId>, _is_yielding: bool) -> Option<TaskId>
    {
        let mut st = self.st.borrow_mut();
        st.trace.steps += 1;
        // canonical order: running task first if runnable, then ascending ids
        let mut ids: Vec<usize> = runnable.iter().map(|t| usize::from(t.id())).collect();
        ids.sort();
        // virtual blocking: a receive that would only block is not an option (unless nothing else is)
        if ids.len() > 1
        {
            let ready: Vec<usize> = ids.iter().cloned().filter(|t| !virtually_blocked(&pending_of(*t))).collect();
            if !ready.is_empty()
            {
                ids = ready;
            }
        }
        let mut cur_enabled = false;
        if let Some(c) = current
        {
            let c = usize::from(c);
            if let Some(p) = ids.iter().position(|t| *t == c)
            {
                let t = ids.remove(p);
                ids.insert(0, t);
                cur_enabled = true;
            }
        }
        let mut choice_no = None;
        let chosen_idx =
        if ids.len() == 1
        {
            0
        }
        else
        {
            let i =
            if st.pos < st.prefix.len()
            {
                let i = st.prefix[st.pos] as usize;
                if i >= ids.len()
                {
                    drop(st);
                    panic!("{}: choice {} of {} options while replaying a prefix", DIVERGENCE, i, ids.len());
                }
                i
            }
            else
            {
                0
            };
            choice_no = Some(st.pos as u16);
            st.pos += 1;
            st.trace.choices.push(i as u8);
            st.trace.width.push(ids.len().min(255) as u8);
            st.trace.cur_enabled.push(cur_enabled);
            i
        };
        let chosen = ids[chosen_idx];
        if st.full
        {
            st.trace.steps_full.push(Step
            {
                task: chosen as u8,
                op: pending_of(chosen),
                options: ids.iter().map(|x| *x as u8).collect(),
                choice: choice_no,
                cur_enabled,
            });
        }
        Some(TaskId::from(chosen))
    }

    fn next_u64(&mut self) -> u64
    {
        0
    }
}

/// Plain enumeration: children of an executed trace for every choice point at or after
/// `from` and every alternative within the preemption bound.
pub fn children_plain(t: &Trace, from: usize, bound: Option<usize>) -> Vec<Vec<u8>>
{
    let mut out = vec![];
    let mut pre = t.preemptions(from);
    for i in from..t.choices.len()
    {
        let step_cost = if t.cur_enabled[i] { 1 } else { 0 };
        let within = match bound { Some(b) => pre + step_cost <= b, None => true };
        if within
        {
            for alt in 1..(t.width[i] as usize)
            {
                let mut prefix = t.choices[..i].to_vec();
                prefix.push(alt as u8);
                out.push(prefix);
            }
        }
        if t.cur_enabled[i] && t.choices[i] != 0 { pre += 1; }
    }
    out
}

/// DPOR: backtrack points of one complete step trace.  For every step j, the last earlier
/// step i of another task that is dependent with j and does not happen-before j is a race;
/// the node before i gets the alternative "run task(j)" (or every other runnable task if
/// task(j) was not runnable there).  Returns new choice prefixes (possibly already known).
pub fn children_dpor(t: &Trace) -> Vec<Vec<u8>>
{
    let steps = &t.steps_full;
    let n = steps.len();
    let ntasks = steps.iter().map(|s| s.task as usize).max().map(|m| m + 1).unwrap_or(0);
    let mut task_clock: Vec<Vec<u32>> = vec![vec![0; ntasks]; ntasks];
    let mut step_clock: Vec<Vec<u32>> = Vec::with_capacity(n);
    let mut out = vec![];
    for j in 0..n
    {
        let p = steps[j].task as usize;
        let mut c = task_clock[p].clone();
        // race detection against the last dependent, unordered step of another task
        let mut i = j;
        while i > 0
        {
            i -= 1;
            let q = steps[i].task as usize;
            if q == p { continue; }
            if independent(&steps[i].op, &steps[j].op) { continue; }
            // i happens-before the current state of p ?
            let hb = step_clock[i][q] <= c[q];
            if hb { continue; }
            // never co-enabled (ordering only, nothing to reverse): thread life-cycle operations
            // of one thread; send and receive on one channel (receive is enabled by the send)
            match (&steps[i].op, &steps[j].op)
            {
                (OpDesc::Thread(..), OpDesc::Thread(..)) => continue,
                (OpDesc::Chan(_, "send"), OpDesc::Chan(_, "recv")) => continue,
                _ => {},
            }
            if steps[i].options.len() > 1
            {
                if let Some(cno) = steps[i].choice
                {
                    let base = t.choices[..cno as usize].to_vec();
                    let chosen = t.choices[cno as usize] as usize;
                    match steps[i].options.iter().position(|x| *x as usize == p)
                    {
                        Some(alt) =>
                        {
                            if alt != chosen { let mut pr = base.clone(); pr.push(alt as u8); out.push(pr); }
                        },
                        None =>
                        {
                            for alt in 0..steps[i].options.len()
                            {
                                if alt != chosen { let mut pr = base.clone(); pr.push(alt as u8); out.push(pr); }
                            }
                        },
                    }
                }
            }
            break;
        }
        // happens-before: join with every earlier dependent step
        for i in 0..j
        {
            if steps[i].task as usize != p && !independent(&steps[i].op, &steps[j].op)
            {
                for k in 0..ntasks { if step_clock[i][k] > c[k] { c[k] = step_clock[i][k]; } }
            }
        }
        c[p] += 1;
        task_clock[p] = c.clone();
        step_clock.push(c);
    }
    out
}

fn payload_to_string(p: Box<dyn Any + Send>) -> String
{
    if let Some(s) = p.downcast_ref::<&str>()
    {
        s.to_string()
    }
    else if let Some(s) = p.downcast_ref::<String>()
    {
        s.clone()
    }
    else
    {
        "non-string panic payload".to_string()
    }
}

static HOOK: std::sync::Once = std::sync::Once::new();

/// Install a quiet panic hook (after shuttle has installed its own, which prints).
/// Panics are expected events for this harness (they are verdicts), so nothing is
/// printed; the location is kept for the violation report.
pub fn install_quiet_hook()
{
    HOOK.call_once(||
    {
        // Make shuttle run its one-time hook installation first.
        let r = shuttle::Runner::new(shuttle::scheduler::DfsScheduler::new(Some(1), false), config());
        r.run(|| {});
        panic::set_hook(Box::new(|info|
        {
            let loc = info.location().map(|l| format!("{}:{}", l.file(), l.line())).unwrap_or_default();
            LAST_PANIC.with(|p| *p.borrow_mut() = Some(loc));
        }));
    });
}

pub fn last_panic_location() -> Option<String>
{
    LAST_PANIC.with(|p| p.borrow_mut().take())
}

fn config() -> shuttle::Config
{
    let mut c = shuttle::Config::new();
    c.stack_size = 1 << 20;
    c.failure_persistence = shuttle::FailurePersistence::None;
    c.max_steps = shuttle::MaxSteps::FailAfter(200_000);
    c.silence_warnings = true;
    c
}

/// Run jobs supplied by `driver` on this OS thread until it has no more.
pub fn run_jobs<D: Driver + 'static>(driver: D) -> D
{
    install_quiet_hook();
    let driver = Rc::new(RefCell::new(driver));
    let st = Rc::new(RefCell::new(CtlState
    {
        prefix: vec![],
        pos: 0,
        full: false,
        trace: Trace::default(),
        active: false,
    }));
    loop
    {
        let ctl = Ctl { st: st.clone(), driver: driver.clone() };
        let runner = shuttle::Runner::new(ctl, config());
        let r = panic::catch_unwind(panic::AssertUnwindSafe(||
        {
            runner.run(||
            {
                let body = BODY.with(|b| b.borrow_mut().take());
                if let Some(body) = body
                {
                    IN_EXEC.with(|c| c.set(true));
                    body();
                    IN_EXEC.with(|c| c.set(false));
                }
            });
        }));
        IN_EXEC.with(|c| c.set(false));
        match r
        {
            Ok(()) => break,
            Err(payload) =>
            {
                let mut msg = payload_to_string(payload);
                if let Some(loc) = last_panic_location()
                {
                    msg = format!("{} [at {}]", msg, loc);
                }
                let trace =
                {
                    let mut s = st.borrow_mut();
                    s.active = false;
                    std::mem::take(&mut s.trace)
                };
                BODY.with(|b| *b.borrow_mut() = None);
                driver.borrow_mut().done(Outcome { trace, failure: Some(msg) });
            },
        }
    }
    drop(st);
    match Rc::try_unwrap(driver)
    {
        Ok(d) => d.into_inner(),
        Err(_) => panic!("driver still shared"),
    }
}

/// Run one closure under a given choice prefix (default choices afterwards).
pub struct Once1<R>
{
    body: Option<Box<dyn FnOnce() -> R>>,
    prefix: Vec<u8>,
    slot: Rc<RefCell<Option<R>>>,
    pub outcome: Option<Outcome>,
}

impl<R: 'static> Driver for Once1<R>
{
    fn next_job(&mut self) -> Option<Job>
    {
        let body = self.body.take()?;
        let slot = self.slot.clone();
        Some(Job { prefix: self.prefix.clone(), full: false, body: Box::new(move || { let r = body(); *slot.borrow_mut() = Some(r); }) })
    }

    fn done(&mut self, outcome: Outcome)
    {
        self.outcome = Some(outcome);
    }
}

/// Convenience: one execution with the given choice prefix.
pub fn run_once<R: 'static>(prefix: Vec<u8>, body: impl FnOnce() -> R + 'static) -> (Option<R>, Outcome)
{
    let slot = Rc::new(RefCell::new(None));
    let d = Once1 { body: Some(Box::new(body)), prefix, slot: slot.clone(), outcome: None };
    let d = run_jobs(d);
    let r = slot.borrow_mut().take();
    (r, d.outcome.expect("execution did not report an outcome"))
}

/// A persistent executor for engines that run very many executions: keeps one shuttle
/// Runner alive per OS thread so that coroutine stacks are reused.
pub struct Pump<F: FnMut(Option<Outcome>) -> Option<Job>>
{
    pub f: F,
    pending: Option<Outcome>,
}

impl<F: FnMut(Option<Outcome>) -> Option<Job>> Driver for Pump<F>
{
    fn next_job(&mut self) -> Option<Job>
    {
        let prev = self.pending.take();
        (self.f)(prev)
    }

    fn done(&mut self, outcome: Outcome)
    {
        self.pending = Some(outcome);
    }
}

/// `f(prev_outcome)` is called before every execution with the outcome of the previous
/// one (None the first time) and returns the next job, or None to stop.
pub fn pump<F: FnMut(Option<Outcome>) -> Option<Job> + 'static>(f: F)
{
    let p = run_jobs(Pump { f, pending: None });
    let Pump { mut f, pending } = p;
    if let Some(o) = pending
    {
        let _ = f(Some(o));
    }
}
