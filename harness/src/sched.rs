//! Controlled scheduling of the real `build()` / `clean()`.
//!
//! shuttle runs every "thread" of ruler as a coroutine on the calling OS thread and
//! asks a `Scheduler` which task runs next at every scheduling point (spawn, join,
//! thread exit, channel send/receive, and `yield_now` calls made by `MemSystem` on
//! shared paths).  We do not use shuttle's own schedulers.  `Ctl` below:
//!
//!  * replays a given *prefix* of choices (an out-of-range choice is a hard
//!    "divergence" error: it would mean nondeterminism we do not own),
//!  * after the prefix always takes option 0 of the canonical option list
//!    (the running task if still runnable, else ascending task ids),
//!  * records, for every choice point (a point with more than one option), the number
//!    of options and whether the running task was among them.
//!
//! Engines enumerate schedules statelessly on top of this: run a prefix to
//! completion, then branch on every later choice point and alternative whose
//! preemption cost stays within the bound.  Each complete schedule is produced
//! exactly once (it is determined by its deviations from the default).
use std::any::Any;
use std::cell::RefCell;
use std::panic;
use std::rc::Rc;

use shuttle::scheduler::{Schedule, Scheduler, Task, TaskId};

#[derive(Clone, Debug, Default)]
pub struct Trace
{
    /// choice taken at each choice point (index into the canonical option list)
    pub choices: Vec<u8>,
    /// number of options at each choice point
    pub width: Vec<u8>,
    /// whether the running task was runnable at the choice point (then option 0 is
    /// "continue" and every other option is a preemption)
    pub cur_enabled: Vec<bool>,
    /// scheduling points including forced ones
    pub steps: usize,
}

impl Trace
{
    pub fn preemptions(&self, upto: usize) -> usize
    {
        (0..upto).filter(|&i| self.cur_enabled[i] && self.choices[i] != 0).count()
    }
}

#[derive(Debug)]
pub struct Outcome
{
    pub trace: Trace,
    /// panic message (task panic, deadlock, step bound, divergence); None = ran to completion
    pub failure: Option<String>,
}

pub struct Job
{
    pub prefix: Vec<u8>,
    pub body: Box<dyn FnOnce()>,
}

pub trait Driver
{
    fn next_job(&mut self) -> Option<Job>;
    fn done(&mut self, outcome: Outcome);
}

struct CtlState
{
    prefix: Vec<u8>,
    pos: usize,
    trace: Trace,
    active: bool,
    diverged: bool,
}

struct Ctl<D: Driver>
{
    st: Rc<RefCell<CtlState>>,
    driver: Rc<RefCell<D>>,
}

thread_local! {
    static BODY: RefCell<Option<Box<dyn FnOnce()>>> = RefCell::new(None);
    static LAST_PANIC: RefCell<Option<String>> = RefCell::new(None);
}

pub const DIVERGENCE: &str = "HARNESS-DIVERGENCE";

impl<D: Driver> Scheduler for Ctl<D>
{
    fn new_execution(&mut self) -> Option<Schedule>
    {
        let finished =
        {
            let mut st = self.st.borrow_mut();
            if st.active
            {
                st.active = false;
                Some(std::mem::take(&mut st.trace))
            }
            else
            {
                None
            }
        };
        if let Some(trace) = finished
        {
            self.driver.borrow_mut().done(Outcome { trace, failure: None });
        }
        let job = self.driver.borrow_mut().next_job()?;
        let Job { prefix, body } = job;
        let mut st = self.st.borrow_mut();
        st.prefix = prefix;
        st.pos = 0;
        st.trace = Trace::default();
        st.active = true;
        st.diverged = false;
        BODY.with(|b| *b.borrow_mut() = Some(body));
        Some(Schedule::new(0))
    }

    fn next_task(&mut self, runnable: &[&Task], current: Option<TaskId>, _is_yielding: bool) -> Option<TaskId>
    {
        let mut st = self.st.borrow_mut();
        st.trace.steps += 1;
        if runnable.len() == 1
        {
            return Some(runnable[0].id());
        }
        // canonical order: running task first if runnable, then ascending ids
        let mut ids: Vec<TaskId> = runnable.iter().map(|t| t.id()).collect();
        ids.sort_by_key(|t| usize::from(*t));
        let mut cur_enabled = false;
        if let Some(c) = current
        {
            if let Some(p) = ids.iter().position(|t| *t == c)
            {
                let t = ids.remove(p);
                ids.insert(0, t);
                cur_enabled = true;
            }
        }
        let idx =
        if st.pos < st.prefix.len()
        {
            let i = st.prefix[st.pos] as usize;
            if i >= ids.len()
            {
                st.diverged = true;
                drop(st);
                panic!("{}: choice {} of {} options while replaying a prefix", DIVERGENCE, i, ids.len());
            }
            i
        }
        else
        {
            0
        };
        st.pos += 1;
        st.trace.choices.push(idx as u8);
        st.trace.width.push(ids.len().min(255) as u8);
        st.trace.cur_enabled.push(cur_enabled);
        Some(ids[idx])
    }

    fn next_u64(&mut self) -> u64
    {
        0
    }
}

fn payload_to_string(p: Box<dyn Any + Send>) -> String
{
    if let Some(s) = p.downcast_ref::<&str>()
    {
        s.to_string()
    }
    else if let Some(s) = p.downcast_ref::<String>()
    {
        s.clone()
    }
    else
    {
        "non-string panic payload".to_string()
    }
}

static HOOK: std::sync::Once = std::sync::Once::new();

/// Install a quiet panic hook (after shuttle has installed its own, which prints).
/// Panics are expected events for this harness (they are verdicts), so nothing is
/// printed; the location is kept for the violation report.
pub fn install_quiet_hook()
{
    HOOK.call_once(||
    {
        // Make shuttle run its one-time hook installation first.
        let r = shuttle::Runner::new(shuttle::scheduler::DfsScheduler::new(Some(1), false), config());
        r.run(|| {});
        panic::set_hook(Box::new(|info|
        {
            let loc = info.location().map(|l| format!("{}:{}", l.file(), l.line())).unwrap_or_default();
            LAST_PANIC.with(|p| *p.borrow_mut() = Some(loc));
        }));
    });
}

pub fn last_panic_location() -> Option<String>
{
    LAST_PANIC.with(|p| p.borrow_mut().take())
}

fn config() -> shuttle::Config
{
    let mut c = shuttle::Config::new();
    c.stack_size = 1 << 20;
    c.failure_persistence = shuttle::FailurePersistence::None;
    c.max_steps = shuttle::MaxSteps::FailAfter(200_000);
    c.silence_warnings = true;
    c
}

/// Run jobs supplied by `driver` on this OS thread until it has no more.
pub fn run_jobs<D: Driver + 'static>(driver: D) -> D
{
    install_quiet_hook();
    let driver = Rc::new(RefCell::new(driver));
    let st = Rc::new(RefCell::new(CtlState
    {
        prefix: vec![],
        pos: 0,
        trace: Trace::default(),
        active: false,
        diverged: false,
    }));
    loop
    {
        let ctl = Ctl { st: st.clone(), driver: driver.clone() };
        let runner = shuttle::Runner::new(ctl, config());
        let r = panic::catch_unwind(panic::AssertUnwindSafe(||
        {
            runner.run(||
            {
                let body = BODY.with(|b| b.borrow_mut().take());
                if let Some(body) = body
                {
                    body();
                }
            });
        }));
        match r
        {
            Ok(()) => break,
            Err(payload) =>
            {
                let mut msg = payload_to_string(payload);
                if let Some(loc) = last_panic_location()
                {
                    msg = format!("{} [at {}]", msg, loc);
                }
                let trace =
                {
                    let mut s = st.borrow_mut();
                    s.active = false;
                    std::mem::take(&mut s.trace)
                };
                BODY.with(|b| *b.borrow_mut() = None);
                driver.borrow_mut().done(Outcome { trace, failure: Some(msg) });
            },
        }
    }
    drop(st);
    match Rc::try_unwrap(driver)
    {
        Ok(d) => d.into_inner(),
        Err(_) => panic!("driver still shared"),
    }
}

/// Run one closure under the serial schedule (option 0 everywhere) and return its value.
pub struct Once1<R>
{
    body: Option<Box<dyn FnOnce() -> R>>,
    prefix: Vec<u8>,
    slot: Rc<RefCell<Option<R>>>,
    pub outcome: Option<Outcome>,
}

impl<R: 'static> Driver for Once1<R>
{
    fn next_job(&mut self) -> Option<Job>
    {
        let body = self.body.take()?;
        let slot = self.slot.clone();
        Some(Job { prefix: self.prefix.clone(), body: Box::new(move || { let r = body(); *slot.borrow_mut() = Some(r); }) })
    }

    fn done(&mut self, outcome: Outcome)
    {
        self.outcome = Some(outcome);
    }
}

/// Convenience: one execution with the given choice prefix.
pub fn run_once<R: 'static>(prefix: Vec<u8>, body: impl FnOnce() -> R + 'static) -> (Option<R>, Outcome)
{
    let slot = Rc::new(RefCell::new(None));
    let d = Once1 { body: Some(Box::new(body)), prefix, slot: slot.clone(), outcome: None };
    let d = run_jobs(d);
    let r = slot.borrow_mut().take();
    (r, d.outcome.expect("execution did not report an outcome"))
}

/// A persistent serial executor for engines that run very many single executions
/// (explicit-state search): keeps one shuttle Runner alive per OS thread so that
/// coroutine stacks are reused.  The engine supplies work through a closure.
pub struct Pump<F: FnMut(Option<Outcome>) -> Option<Job>>
{
    pub f: F,
    pending: Option<Outcome>,
}

impl<F: FnMut(Option<Outcome>) -> Option<Job>> Driver for Pump<F>
{
    fn next_job(&mut self) -> Option<Job>
    {
        let prev = self.pending.take();
        (self.f)(prev)
    }

    fn done(&mut self, outcome: Outcome)
    {
        self.pending = Some(outcome);
    }
}

/// `f(prev_outcome)` is called before every execution with the outcome of the previous
/// one (None the first time) and returns the next job, or None to stop.  After the
/// last execution `f` is called once more with its outcome so nothing is lost.
pub fn pump<F: FnMut(Option<Outcome>) -> Option<Job> + 'static>(f: F)
{
    let p = run_jobs(Pump { f, pending: None });
    let Pump { mut f, pending } = p;
    if let Some(o) = pending
    {
        let _ = f(Some(o));
    }
}
