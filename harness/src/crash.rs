//! placeholder
