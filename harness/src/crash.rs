//! `crash` — every prefix of the mutation log, torn writes included (DESIGN 4.3).
//!
//! For each case (rules + pre-history + operation) the operation is run with
//! journaling: after every file-system mutation (inside ruler and inside commands) a
//! snapshot of the whole file system is kept, and for every `write` also the torn
//! variants (only a strict prefix of the bytes reached the disk).  This is done under
//! the serial schedule, under every DPOR representative schedule and under all
//! schedules with at most one preemption.  Each distinct snapshot is a crash state:
//! "ruler was killed at this instant".  Every crash state is judged:
//!
//!  (a) the cache is content-addressed (C07 at the crash instant),
//!  (b) no previously existing content is lost (C08; at ruler's own mutations only —
//!      commands are assumed to write atomically),
//!  (c) a state file either fails to decode or decodes to a value that a completed
//!      write produced,
//!  (d) a fresh build from the crash state succeeds and satisfies C01.
use std::cell::RefCell;
use std::collections::{BTreeMap, BTreeSet};
use std::rc::Rc;
use std::sync::atomic::{AtomicUsize, Ordering};
use std::sync::{Arc, Mutex};
use std::time::{Duration, Instant};

use serde_json::{json, Value};

use crate::hist::{self, expected_verdict, Finding, Op, Oracles, State};
use crate::memsys::{ClockModel, Fs, Snap};
use crate::model::*;
use crate::report::{Report, Violation};
use crate::sched::{self, Job, Outcome};
use crate::schedeng::{self, ExploreCfg, SchedCase};
use crate::world::*;

thread_local! {
    static DOUBLE: std::cell::Cell<u64> = std::cell::Cell::new(0);
}

pub struct CrashStats
{
    pub snapshots_seen: u64,
    pub distinct_crash_states: u64,
    pub torn_states: u64,
    pub recovery_builds: u64,
    pub schedules: u64,
}

/// values a state file legitimately had: in the pre-state, and after every complete write
fn legit_state_values(pre: &Fs, snaps: &[Snap]) -> (BTreeSet<String>, BTreeSet<String>)
{
    let mut hist_vals = BTreeSet::new();
    let mut table_vals = BTreeSet::new();
    let mut add = |fs: &Fs, hist_vals: &mut BTreeSet<String>, table_vals: &mut BTreeSet<String>|
    {
        for (_name, dec) in decode_history(fs)
        {
            if let Some(m) = dec { hist_vals.insert(format!("{:?}", m)); }
        }
        if let Some(Some(t)) = decode_table(fs) { table_vals.insert(format!("{:?}", t)); }
    };
    add(pre, &mut hist_vals, &mut table_vals);
    for s in snaps
    {
        if s.torn.is_none() && s.desc.starts_with("write ")
        {
            add(&s.fs, &mut hist_vals, &mut table_vals);
        }
        if s.torn.is_none() && s.desc.starts_with("rename ")
        {
            add(&s.fs, &mut hist_vals, &mut table_vals);
        }
    }
    // an empty map is what a fresh/absent file means
    hist_vals.insert(format!("{:?}", BTreeMap::<[u8; 32], Vec<[u8; 32]>>::new()));
    table_vals.insert(format!("{:?}", BTreeMap::<String, MFileState>::new()));
    (hist_vals, table_vals)
}

fn judge(case: &SchedCase, prep: &State, snap: &Snap, legit: &(BTreeSet<String>, BTreeSet<String>), double: bool) -> Vec<Finding>
{
    let mut out = vec![];
    let rules = &case.sc.variants[prep.variant];
    let at = format!("killed right after [{}]{}", snap.desc, if snap.in_cmd { " (inside a command)" } else { "" });
    // (a)
    for b in cache_audit(&snap.fs)
    {
        out.push(Finding { property: "C07", what: format!("cache not content-addressed at a crash point: {}", at), detail: b });
    }
    // (b)
    if !snap.in_cmd && snap.torn.is_none()
    {
        let paths = all_declared_targets(&case.sc.variants);
        let before = content_set(&prep.fs, &paths);
        let after = content_set(&snap.fs, &paths);
        for lost in before.difference(&after)
        {
            out.push(Finding { property: "C08", what: format!("previously existing content lost at a crash point: {}", at), detail: format!("{:?}", show(lost)) });
        }
    }
    // (c)
    for (name, dec) in decode_history(&snap.fs)
    {
        if let Some(m) = dec
        {
            if !legit.0.contains(&format!("{:?}", m))
            {
                out.push(Finding { property: "C11", what: format!("half-written rule history is misread as valid data: {}", at), detail: name });
            }
        }
    }
    if let Some(Some(t)) = decode_table(&snap.fs)
    {
        if !legit.1.contains(&format!("{:?}", t))
        {
            out.push(Finding { property: "C11", what: format!("half-written file-state table is misread as valid data: {}", at), detail: String::new() });
        }
    }
    // (d) recovery
    let rc = RunCfg::serial(ClockModel::Strict);
    let rr = run_build(&snap.fs, &rc, &None);
    match expected_verdict(rules, &snap.fs, &None)
    {
        Some((exp, scope, ev)) =>
        {
            if exp != Verdict::Ok
            {
                // corpus invariant: from-scratch build succeeds
                out.push(Finding { property: "HARNESS", what: "crash case whose from-scratch build does not succeed".into(), detail: format!("{:?}", exp) });
            }
            else if rr.verdict != Verdict::Ok
            {
                out.push(Finding
                {
                    property: "C11",
                    what: format!("the next build fails ({}) when ruler was {}", crate::cli::first_line(&verdict_text(&rr.verdict)), at),
                    detail: format!("{:?}", rr.verdict),
                });
            }
            else
            {
                // the recovery build is a quiescent point again: the cache must be content-addressed
                for b in cache_audit(&rr.fs)
                {
                    out.push(Finding { property: "C07", what: format!("cache not content-addressed after the build that follows a crash: {}", at), detail: b });
                }
                // and nothing that was there at the crash instant may be lost by the recovery (ruler's own actions)
                if !snap.in_cmd && snap.torn.is_none()
                {
                    let paths = all_declared_targets(&case.sc.variants);
                    let before = content_set(&snap.fs, &paths);
                    let after = content_set(&rr.fs, &paths);
                    for lost in before.difference(&after)
                    {
                        out.push(Finding { property: "C08", what: format!("content present at the crash instant is lost by the next build: {}", at), detail: format!("{:?}", show(lost)) });
                    }
                }
                // killed again, at any instant of the recovery build itself: the build after that recovers too
                if double
                {
                    let mut rc2 = RunCfg::serial(ClockModel::Strict);
                    rc2.snapshots = true;
                    let again = run_build(&snap.fs, &rc2, &None);
                    let mut seen2: BTreeSet<[u8; 16]> = BTreeSet::new();
                    for s2 in again.log.snaps.iter()
                    {
                        if !seen2.insert(canon_key(&s2.fs, &[])) { continue; }
                        DOUBLE.with(|d| d.set(d.get() + 1));
                        let r3 = run_build(&s2.fs, &rc, &None);
                        let mut wrong = r3.verdict != Verdict::Ok;
                        if !wrong
                        {
                            for r in &scope { for t in rules[*r].sorted_targets() { if ev.values.get(&t).map(|x| x.0.clone()) != r3.fs.read(&t) { wrong = true; } } }
                        }
                        if wrong
                        {
                            out.push(Finding { property: "C11", what: format!("killed twice: first {}, then during the recovery build right after [{}]; the third build fails or leaves a wrong target", at, s2.desc),
                                detail: format!("{:?} {:?}", r3.verdict, workspace_view(&r3.fs)) });
                        }
                        for b in cache_audit(&r3.fs)
                        {
                            out.push(Finding { property: "C07", what: format!("cache not content-addressed after two crashes and a build: {} / [{}]", at, s2.desc), detail: b });
                        }
                    }
                }
                // life goes on after the recovery: every single leaf edit followed by a build must
                // again give the from-scratch result and leave the cache content-addressed
                for (leaf, dom) in case.sc.edits.iter()
                {
                    for v in dom.iter()
                    {
                        if rr.fs.read(leaf).as_ref() == Some(v) || dom.len() < 2 { continue; }
                        let mut fs2 = rr.fs.clone();
                        user_write(&mut fs2, leaf, v.clone());
                        let r2 = run_build(&fs2, &rc, &None);
                        if let Some((exp2, scope2, ev2)) = expected_verdict(rules, &fs2, &None)
                        {
                            if exp2 == Verdict::Ok
                            {
                                let mut wrong = r2.verdict != Verdict::Ok;
                                if !wrong
                                {
                                    for r in &scope2 { for t in rules[*r].sorted_targets() { if ev2.values.get(&t).map(|x| x.0.clone()) != r2.fs.read(&t) { wrong = true; } } }
                                }
                                if wrong
                                {
                                    out.push(Finding { property: "C11", what: format!("after recovering, an edit and a build give a wrong result or fail when ruler had been {}", at),
                                        detail: format!("edit {} then build: {:?} {:?}", leaf, r2.verdict, workspace_view(&r2.fs)) });
                                }
                                for b in cache_audit(&r2.fs)
                                {
                                    out.push(Finding { property: "C07", what: format!("cache not content-addressed two builds after a crash: {}", at), detail: b });
                                }
                            }
                        }
                    }
                }
                for r in &scope
                {
                    for t in rules[*r].sorted_targets()
                    {
                        let want = ev.values.get(&t).map(|v| v.0.clone());
                        let got = rr.fs.read(&t);
                        if want != got
                        {
                            out.push(Finding
                            {
                                property: "C11",
                                what: format!("the next build succeeds but leaves a wrong target when ruler was {}", at),
                                detail: format!("{}: expected {:?} got {:?}", t, want.as_ref().map(show), got.as_ref().map(show)),
                            });
                        }
                    }
                }
            }
        },
        None => {},
    }
    out
}

fn verdict_text(v: &Verdict) -> String
{
    match v
    {
        Verdict::Ok => "Ok".into(),
        Verdict::WorkErrors(es) => format!("WorkErrors{:?}", es.iter().map(|e| match e { WErr::Other(s) => s.split('(').take(3).collect::<Vec<_>>().join("("), o => format!("{:?}", o) }).collect::<Vec<_>>()),
        Verdict::Other(s) =>
        {
            // drop file names (they contain content hashes)
            s.split(|c| c == '"').next().unwrap_or("").trim_end_matches('(').to_string()
        },
    }
}

pub fn crash_cases(tier: &str) -> Vec<SchedCase>
{
    let all = schedeng::success_cases("thorough");
    let quick = ["single/fresh/build", "chain2/fresh/build", "chain2/built+edit/build", "chain2/cleaned/build", "chain2/built/clean",
        "twins/cleaned/build", "multi/built+edit2/build", "diamond/reverted/build", "multi/built/clean",
        "diamond/cleaned/build", "twins/reverted/build", "fanout/cleaned/build", "twinsmulti/cleaned/build",
        "chain3/built+edit/build", "bothtargets/built+edit2/build", "multi/cleaned/build", "twocomp/goal-b/build", "twins/built/clean"];
    all.into_iter().filter(|c| tier == "thorough" || quick.contains(&c.name.as_str())).collect()
}

pub fn run_crash(rep: &mut Report, tier: &str, id: &str)
{
    let thorough = tier == "thorough";
    let mut total_snaps = 0u64;
    let mut total_distinct = 0u64;
    let mut total_torn = 0u64;
    let mut total_recoveries = 0u64;
    let mut total_sched = 0u64;
    let mut total_double = 0u64;
    let mut per = vec![];
    let mut exhaustive = true;
    for case in crash_cases(tier)
    {
        let prep = match schedeng::prepare(&case)
        {
            Ok(p) => p,
            // ruler failed on the serial pre-history: C05's business, this engine skips the case and says so
            Err(e) => { exhaustive = false; rep.push_sample(json!({"case_skipped_because_its_pre_history_failed": case.name, "failure": crate::cli::first_line(&e)})); continue; },
        };
        // 1. collect crash states under: serial + DPOR representatives + all schedules with <= 1 preemption
        let mut snaps: std::collections::HashMap<[u8; 16], Snap> = Default::default();
        let mut sched_count = 0u64;
        let mut seen = 0u64;
        let mut phases_json = vec![];
        let small = case.name.starts_with("single") || case.name.starts_with("chain2") || case.name.starts_with("twins/");
        let mut phases: Vec<(&str, bool, Option<usize>, f64)> = vec![("serial+preemption-bound-0", false, Some(0), if thorough { 20.0 } else { 5.0 }), ("dpor-unbounded", true, None, if thorough { 30.0 } else { 2.0 })];
        if small || thorough
        {
            phases.push(("preemption-bound-1", false, Some(1), if thorough { 30.0 } else { 1.5 }));
        }
        for (label, por, bound, secs) in phases
        {
            let cfg = ExploreCfg
            {
                snapshots: true, por, bound, threads: crate::cli::threads(),
                deadline: Instant::now() + Duration::from_millis((secs * 1000.0) as u64),
                max_schedules: 2_000_000, oracles: Oracles::default(), c03: false, c04_history: false,
            };
            let r = schedeng::explore(&case, &prep, &cfg);
            sched_count += r.schedules;
            seen += r.snaps_seen;
            phases_json.push(json!({"phase": label, "schedules": r.schedules, "complete": !r.cap_hit, "snapshots": r.snaps_seen, "distinct_so_far": snaps.len() + r.snaps.len()}));
            if r.cap_hit && label != "preemption-bound-1" { exhaustive = false; }
            for (k, v) in r.snaps { snaps.entry(k).or_insert(v); }
            for e in r.harness_errors { rep.machinery(format!("case {}: {}", case.name, e)); }
            for (choices, msg) in r.failures.iter().take(1)
            {
                rep.machinery(format!("case {}: execution failed while journaling (schedule {:?}): {}", case.name, choices, msg));
            }
        }
        let snaps: Vec<Snap> = { let mut v: Vec<([u8; 16], Snap)> = snaps.into_iter().collect(); v.sort_by(|a, b| (a.1.after_mut, a.1.torn, a.0).cmp(&(b.1.after_mut, b.1.torn, b.0))); v.into_iter().map(|x| x.1).collect() };
        let legit = legit_state_values(&prep.fs, &snaps);
        let torn = snaps.iter().filter(|s| s.torn.is_some()).count() as u64;
        // 2. judge every distinct crash state (parallel)
        let snaps = Arc::new(snaps);
        let legit = Arc::new(legit);
        let idx = Arc::new(AtomicUsize::new(0));
        let findings: Arc<Mutex<Vec<(usize, Finding)>>> = Arc::new(Mutex::new(vec![]));
        let failures: Arc<Mutex<Vec<(usize, String)>>> = Arc::new(Mutex::new(vec![]));
        let double_count = Arc::new(AtomicUsize::new(0));
        // second crash during the recovery build: thorough tier, and the small cases of the quick tier
        let double = thorough || small;
        let mut handles = vec![];
        for _ in 0..crate::cli::threads()
        {
            let snaps = snaps.clone();
            let legit = legit.clone();
            let idx = idx.clone();
            let findings = findings.clone();
            let failures = failures.clone();
            let double_count = double_count.clone();
            let case = case.clone();
            let prep = prep.clone();
            handles.push(std::thread::Builder::new().stack_size(16 << 20).spawn(move ||
            {
                let case = Arc::new(case);
                let prep = Arc::new(prep);
                let cur: Rc<RefCell<usize>> = Rc::new(RefCell::new(0));
                let cur2 = cur.clone();
                sched::pump(move |prev: Option<Outcome>|
                {
                    if let Some(o) = prev
                    {
                        if let Some(msg) = o.failure
                        {
                            failures.lock().unwrap().push((*cur2.borrow(), msg));
                        }
                    }
                    let i = idx.fetch_add(1, Ordering::SeqCst);
                    if i >= snaps.len() { return None; }
                    *cur2.borrow_mut() = i;
                    let snaps = snaps.clone();
                    let legit = legit.clone();
                    let case = case.clone();
                    let prep = prep.clone();
                    let findings = findings.clone();
                    let double_count = double_count.clone();
                    Some(Job::serial(Box::new(move ||
                    {
                        let _w = crate::watch::item(|| (format!("recovery after case {} was killed right after [{}]", case.name, snaps[i].desc),
                            json!({"engine": "crash", "case": case.name, "crash_desc": snaps[i].desc, "what": ""})));
                        let fs = judge(&case, &prep, &snaps[i], &legit, double);
                        let n = DOUBLE.with(|d| d.replace(0));
                        double_count.fetch_add(n as usize, Ordering::SeqCst);
                        if !fs.is_empty()
                        {
                            let mut g = findings.lock().unwrap();
                            for f in fs { g.push((i, f)); }
                        }
                    })))
                });
                let _ = cur;
            }).unwrap());
        }
        for h in handles { let _ = h.join(); }
        total_snaps += seen;
        total_distinct += snaps.len() as u64;
        total_torn += torn;
        total_recoveries += snaps.len() as u64;
        total_double += double_count.load(Ordering::SeqCst) as u64;
        total_sched += sched_count;
        per.push(json!({"case": case.name, "pre_history": hist::ops_short(&case.pre), "operation": case.op.short(), "phases": phases_json,
            "snapshots_taken": seen, "distinct_crash_states": snaps.len(), "of_which_torn_writes": torn, "recovery_builds": snaps.len()}));
        if let Some(s) = snaps.iter().find(|s| s.torn.is_some())
        {
            rep.push_sample(json!({"case": case.name, "crash_point": s.desc, "mutation_index": s.after_mut}));
        }
        for (i, msg) in failures.lock().unwrap().iter()
        {
            let s = &snaps[*i];
            let what = format!("the next build panics or hangs when ruler was killed right after [{}]", s.desc);
            if id != "C11" { continue; }
            rep.violation(Violation
            {
                property: "C11".into(),
                signature: format!("C11:crash:{}:{}", case.name, what),
                summary: format!("{}: {}", what, msg),
                replay: json!({"engine": "crash", "case": case.name, "crash_desc": s.desc, "what": what}),
            });
        }
        let mut by_sig: BTreeMap<String, (usize, Finding)> = BTreeMap::new();
        for (i, f) in findings.lock().unwrap().iter()
        {
            if f.property == "HARNESS" { rep.machinery(format!("case {}: {}", case.name, f.what)); continue; }
            // C11 owns every crash finding; C07 / C08 own the ones about their own invariant
            if id != "C11" && f.property != id { continue; }
            // signature: sizes of torn writes abstracted
            let mut w = f.what.clone();
            while let Some(b) = w.find(" bytes)") { match w[..b].rfind(" (") { Some(a) => w.replace_range(a..b + 7, ""), None => break } }
            let sig = format!("{}:crash:{}", id, w);
            by_sig.entry(sig).or_insert((*i, f.clone()));
        }
        for (sig, (i, f)) in by_sig
        {
            let s = &snaps[i];
            rep.violation(Violation
            {
                property: id.to_string(),
                signature: sig,
                summary: format!("case {} [{} then {}], mutation #{}: {} — {}", case.name, hist::ops_short(&case.pre), case.op.short(), s.after_mut, f.what, f.detail),
                replay: json!({"engine": "crash", "case": case.name, "crash_desc": s.desc, "what": f.what}),
            });
        }
    }
    rep.add("states", total_distinct);
    rep.add("transitions", total_recoveries + total_sched + total_double);
    rep.add("traces_validated_against_impl", total_recoveries + total_sched + total_double);
    rep.add("snapshots_taken", total_snaps);
    rep.add("torn_write_states", total_torn);
    rep.add("journaling_schedules", total_sched);
    rep.add("recovery_builds", total_recoveries);
    rep.add("second_crash_states_recovered_from", total_double);
    rep.set("follow_up", json!("after every recovery build: every single leaf edit + build, judged by the C01 and C07 oracles"));
    rep.set("exhaustive", json!(exhaustive));
    rep.set("per_case", json!(per));
}

/// Replay: re-journal the case serially and under DPOR schedules, judge the crash states
/// whose description matches.
pub fn replay(case_name: &str, crash_desc: &str, what: &str) -> i32
{
    let case = match schedeng::case_by_name(case_name) { Some(c) => c, None => { eprintln!("unknown case"); return 2; } };
    let prep = match schedeng::prepare(&case) { Ok(p) => p, Err(e) => { eprintln!("{}", e); return 2; } };
    let cfg = ExploreCfg { snapshots: true, por: true, bound: None, threads: 1, deadline: Instant::now() + Duration::from_secs(60),
        max_schedules: 100_000, oracles: Oracles::default(), c03: false, c04_history: false };
    let r = schedeng::explore(&case, &prep, &cfg);
    let snaps: Vec<Snap> = r.snaps.into_iter().map(|x| x.1).collect();
    let legit = legit_state_values(&prep.fs, &snaps);
    let mut hit = false;
    for s in snaps.iter().filter(|s| s.desc == crash_desc)
    {
        let s2 = s.clone();
        let case2 = case.clone();
        let prep2 = prep.clone();
        let legit2 = legit.clone();
        let (fs, o) = sched::run_once(vec![], move || judge(&case2, &prep2, &s2, &legit2, true));
        if let Some(m) = o.failure { println!("recovery build failed to run: {}", m); hit = true; }
        for f in fs.unwrap_or_default()
        {
            println!("{}: {} — {}", f.property, f.what, f.detail);
            if f.what == what || what.is_empty() { hit = true; }
        }
    }
    if hit { 1 } else { 0 }
}
