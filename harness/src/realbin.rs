//! Binding the environment model to the real binary (DESIGN 4.5).
//!
//! Both engines build /repo with the guard OFF into /verif/.build/repo-target and drive
//! `target/debug/ruler`:
//!
//!  * `realfs`: every `hist` trace of a few scenarios up to a depth is replayed in a
//!    scratch directory with /bin/sh commands; after every operation the real directory
//!    must agree with MemSystem on verdict class, status lines, workspace bytes and
//!    permissions, cache entry names and decoded history.
//!  * `serve` (C19): ruler directories reached by `hist` are materialised, the real
//!    binary is started with `serve <port>` and a complete request menu is issued over
//!    plain TCP on the loopback interface.
use std::collections::{BTreeMap, BTreeSet};
use std::fs;
use std::io::{Read, Write};
use std::net::{TcpListener, TcpStream};
use std::os::unix::fs::PermissionsExt;
use std::path::{Path, PathBuf};
use std::process::{Child, Command, Stdio};
use std::sync::atomic::{AtomicUsize, Ordering};
use std::sync::{Arc, Mutex};
use std::time::{Duration, Instant};

use serde_json::{json, Value};

use crate::hist::{self, apply, enabled_ops, initial_state, Ctx, Op, Oracles, Scenario, State, Stats, TAMPER_CONTENT};
use crate::memsys::{ClockModel, Fs, Node};
use crate::model::*;
use crate::refsha;
use crate::report::{self, Report, Violation};
use crate::sched;
use crate::world::*;

pub const REPO_TARGET: &str = "/verif/.build/repo-target";

/// Build /repo's binary from the current working tree with the guard off.
pub fn build_real_binary() -> Result<PathBuf, String>
{
    let out = Command::new("cargo")
        .args(["build", "--offline", "--bin", "ruler"])
        .current_dir("/repo")
        .env("CARGO_TARGET_DIR", REPO_TARGET)
        .env("CARGO_NET_OFFLINE", "true")
        .env_remove("RUSTFLAGS")
        .output()
        .map_err(|e| format!("cannot run cargo: {}", e))?;
    if !out.status.success()
    {
        return Err(format!("building /repo failed:\n{}", String::from_utf8_lossy(&out.stderr).lines().filter(|l| l.starts_with("error")).take(10).collect::<Vec<_>>().join("\n")));
    }
    let p = PathBuf::from(format!("{}/debug/ruler", REPO_TARGET));
    if p.is_file() { Ok(p) } else { Err("binary not found after build".to_string()) }
}

/// `Command::output` with a time limit: None = the process did not end in time (it is killed).
fn output_limited(cmd: &mut Command, secs: u64) -> Option<std::process::Output>
{
    let mut child = cmd.stdout(Stdio::piped()).stderr(Stdio::piped()).spawn().ok()?;
    let mut o = child.stdout.take()?;
    let mut e = child.stderr.take()?;
    let ro = std::thread::spawn(move || { let mut v = vec![]; let _ = o.read_to_end(&mut v); v });
    let re = std::thread::spawn(move || { let mut v = vec![]; let _ = e.read_to_end(&mut v); v });
    let started = Instant::now();
    let status = loop
    {
        match child.try_wait()
        {
            Ok(Some(st)) => break Some(st),
            Ok(None) => {},
            Err(_) => break None,
        }
        if started.elapsed() > Duration::from_secs(secs) { let _ = child.kill(); let _ = child.wait(); break None; }
        std::thread::sleep(Duration::from_millis(2));
    };
    let stdout = ro.join().unwrap_or_default();
    let stderr = re.join().unwrap_or_default();
    status.map(|status| std::process::Output { status, stdout, stderr })
}

const REAL_LIMIT_S: u64 = 20;

fn scratch(name: &str) -> PathBuf
{
    let p = report::work_dir().join(format!("{}-{}", name, std::process::id()));
    let _ = fs::remove_dir_all(&p);
    fs::create_dir_all(&p).expect("create scratch dir");
    p
}

/// C15 through the command line: `ruler hash <path>` of the real binary for files of boundary
/// lengths and for small directory trees before / after a rename.  Returns (evaluations, findings).
pub fn hash_cli_family() -> Result<(u64, Vec<(String, String)>), String>
{
    let bin = build_real_binary()?;
    let dir = scratch("hashcli");
    let mut bad = vec![];
    let mut n = 0u64;
    let run = |rel: &str| -> String
    {
        match output_limited(Command::new(&bin).args(["hash", rel]).current_dir(&dir), REAL_LIMIT_S)
        {
            Some(out) => strip_ansi(&String::from_utf8_lossy(&out.stdout)).trim().to_string(),
            None => format!("(`ruler hash` did not end within {} s)", REAL_LIMIT_S),
        }
    };
    for len in [0usize, 1, 55, 56, 63, 64, 255, 256, 257, 511, 512, 513, 4095, 4096, 4097, 8192, 65535, 65536, 65537, 200_000]
    {
        for pat in 0..2u8
        {
            let data: Vec<u8> = (0..len).map(|i| if pat == 0 { (i % 251) as u8 } else { 0xff - (i % 7) as u8 }).collect();
            let p = dir.join("f.bin");
            fs::write(&p, &data).map_err(|e| e.to_string())?;
            n += 1;
            let got = run("f.bin");
            let want = refsha::encode62(&refsha::sha256(&data));
            if got != want { bad.push(("`ruler hash` of a file differs from the base-62 SHA-256 of its bytes".to_string(), format!("length {} pattern {}: {:?} vs {}", len, pat, got, want))); }
        }
    }
    // directories: the hash changes when a contained name or content changes, and does not depend on
    // the order in which the entries were created
    let mk = |name: &str, entries: &[(&str, Option<&[u8]>)]| -> Result<(), String>
    {
        let d = dir.join(name);
        let _ = fs::remove_dir_all(&d);
        fs::create_dir_all(&d).map_err(|e| e.to_string())?;
        for (rel, data) in entries
        {
            let p = d.join(rel);
            match data
            {
                Some(b) => { if let Some(par) = p.parent() { let _ = fs::create_dir_all(par); } fs::write(&p, b).map_err(|e| e.to_string())?; },
                None => { fs::create_dir_all(&p).map_err(|e| e.to_string())?; },
            }
        }
        Ok(())
    };
    let base: Vec<(&str, Option<&[u8]>)> = vec![("a", Some(b"x")), ("b", Some(b"y")), ("sub", None), ("sub/c", Some(b"z")), ("empty", None)];
    // names that begin with a dot are names like any other
    {
        let dotted: Vec<(&str, Option<&[u8]>)> = vec![("a", Some(b"x")), (".hidden", Some(b"h")), (".dir", None), (".dir/inner", Some(b"i"))];
        mk("t2", &dotted)?;
        let hd = run("t2");
        n += 1;
        let changes: Vec<(&str, Vec<(&str, Option<&[u8]>)>)> = vec![
            ("the content of a dot-file changed", vec![("a", Some(b"x")), (".hidden", Some(b"H")), (".dir", None), (".dir/inner", Some(b"i"))]),
            ("a dot-file renamed", vec![("a", Some(b"x")), (".hidden2", Some(b"h")), (".dir", None), (".dir/inner", Some(b"i"))]),
            ("a dot-file removed", vec![("a", Some(b"x")), (".dir", None), (".dir/inner", Some(b"i"))]),
            ("a file inside a dot-directory changed", vec![("a", Some(b"x")), (".hidden", Some(b"h")), (".dir", None), (".dir/inner", Some(b"I"))]),
            ("a dot-directory renamed", vec![("a", Some(b"x")), (".hidden", Some(b"h")), (".dir2", None), (".dir2/inner", Some(b"i"))]),
        ];
        for (what, v) in changes
        {
            mk("t2", &v)?;
            n += 1;
            if run("t2") == hd { bad.push(("`ruler hash` of a directory is unchanged after a contained name or content changed".to_string(), what.to_string())); }
        }
    }
    mk("t0", &base)?;
    let h0 = run("t0");
    n += 1;
    if h0.len() != 43 { bad.push(("`ruler hash` of a directory is not a 43-character hash".to_string(), h0.clone())); }
    let mut rev = base.clone();
    rev.reverse();
    // parents must exist before children: create in an order that differs but is valid
    let reordered: Vec<(&str, Option<&[u8]>)> = vec![("empty", None), ("sub", None), ("sub/c", Some(b"z")), ("b", Some(b"y")), ("a", Some(b"x"))];
    mk("t0", &reordered)?;
    n += 1;
    if run("t0") != h0 { bad.push(("`ruler hash` of a directory depends on the order in which its entries were created".to_string(), String::new())); }
    let variants: Vec<(&str, Vec<(&str, Option<&[u8]>)>)> = vec![
        ("a file renamed", vec![("a2", Some(b"x")), ("b", Some(b"y")), ("sub", None), ("sub/c", Some(b"z")), ("empty", None)]),
        ("a file's content changed", vec![("a", Some(b"x!")), ("b", Some(b"y")), ("sub", None), ("sub/c", Some(b"z")), ("empty", None)]),
        ("a nested file renamed", vec![("a", Some(b"x")), ("b", Some(b"y")), ("sub", None), ("sub/d", Some(b"z")), ("empty", None)]),
        ("a nested file's content changed", vec![("a", Some(b"x")), ("b", Some(b"y")), ("sub", None), ("sub/c", Some(b"zz")), ("empty", None)]),
        ("a sub-directory renamed", vec![("a", Some(b"x")), ("b", Some(b"y")), ("sub2", None), ("sub2/c", Some(b"z")), ("empty", None)]),
        ("an empty sub-directory renamed", vec![("a", Some(b"x")), ("b", Some(b"y")), ("sub", None), ("sub/c", Some(b"z")), ("empty2", None)]),
        ("an entry removed", vec![("a", Some(b"x")), ("sub", None), ("sub/c", Some(b"z")), ("empty", None)]),
        ("two contents swapped", vec![("a", Some(b"y")), ("b", Some(b"x")), ("sub", None), ("sub/c", Some(b"z")), ("empty", None)]),
    ];
    for (what, v) in variants
    {
        mk("t0", &v)?;
        n += 1;
        if run("t0") == h0 { bad.push(("`ruler hash` of a directory is unchanged after a contained name or content changed".to_string(), what.to_string())); }
    }
    // symbolic links are entries like any other: adding, renaming or removing one changes a contained name
    {
        mk("t1", &base)?;
        fs::write(dir.join("outside.txt"), b"o").map_err(|e| e.to_string())?;
        let h1 = run("t1");
        n += 1;
        std::os::unix::fs::symlink("../outside.txt", dir.join("t1/link")).map_err(|e| e.to_string())?;
        let h2 = run("t1");
        n += 1;
        if h2 == h1 || h2.len() != 43 { bad.push(("`ruler hash` of a directory is unchanged after a contained name or content changed".to_string(), format!("a symbolic link to a file added: {:?} -> {:?}", h1, h2))); }
        fs::rename(dir.join("t1/link"), dir.join("t1/link2")).map_err(|e| e.to_string())?;
        let h3 = run("t1");
        n += 1;
        if h3 == h2 { bad.push(("`ruler hash` of a directory is unchanged after a contained name or content changed".to_string(), "a symbolic link renamed".to_string())); }
        fs::remove_file(dir.join("t1/link2")).map_err(|e| e.to_string())?;
        n += 1;
        if run("t1") != h1 { bad.push(("`ruler hash` of a directory is not a function of its names and contents".to_string(), "after adding and removing a symbolic link".to_string())); }
    }
    let _ = fs::remove_dir_all(&dir);
    Ok((n, bad))
}

// ---------------------------------------------------------------------------
// realfs

fn write_file(dir: &Path, rel: &str, data: &[u8])
{
    let p = dir.join(rel);
    if let Some(parent) = p.parent() { let _ = fs::create_dir_all(parent); }
    // same inode semantics as a shell redirect: truncate in place, keep permissions
    let mut f = fs::OpenOptions::new().write(true).create(true).truncate(true).open(&p).expect("write file");
    f.write_all(data).expect("write");
    drop(f);
    std::thread::sleep(Duration::from_millis(5));
}

fn strip_ansi(s: &str) -> String
{
    let mut out = String::new();
    let mut it = s.chars().peekable();
    while let Some(c) = it.next()
    {
        if c == '\u{1b}'
        {
            while let Some(d) = it.next() { if d == 'm' { break; } }
        }
        else { out.push(c); }
    }
    out
}

pub struct RealRun
{
    pub ok: bool,
    pub stderr: String,
    pub banners: Vec<(String, String)>,
}

fn run_ruler(bin: &Path, dir: &Path, args: &[&str]) -> RealRun
{
    let out = match output_limited(Command::new(bin).args(args).current_dir(dir), REAL_LIMIT_S)
    {
        Some(o) => o,
        None => return RealRun { ok: false, stderr: format!("ruler {:?} did not end within {} s", args, REAL_LIMIT_S), banners: vec![] },
    };
    let stdout = strip_ansi(&String::from_utf8_lossy(&out.stdout));
    let stderr = String::from_utf8_lossy(&out.stderr).to_string();
    let mut banners = vec![];
    for l in stdout.lines()
    {
        if let Some(i) = l.find(": ")
        {
            let b = l[..i].trim();
            if ["Built", "Recovered", "Up-to-date", "Downloaded", "Outdated"].contains(&b)
            {
                banners.push((b.to_string(), l[i + 2..].to_string()));
            }
        }
    }
    banners.sort();
    std::thread::sleep(Duration::from_millis(5));
    RealRun { ok: stderr.trim().is_empty(), stderr, banners }
}

/// (workspace files -> (bytes, exec), cache names, decoded history)
fn observe_real(dir: &Path, explicit: bool) -> (BTreeMap<String, (Vec<u8>, bool)>, BTreeSet<String>, DecodedHistory)
{
    let (rdir, rfile) = real_names(explicit);
    let mut ws = BTreeMap::new();
    fn walk(base: &Path, rel: &str, skip: (&str, &str), out: &mut BTreeMap<String, (Vec<u8>, bool)>)
    {
        let d = if rel.is_empty() { base.to_path_buf() } else { base.join(rel) };
        if let Ok(rd) = fs::read_dir(&d)
        {
            for e in rd.flatten()
            {
                let name = e.file_name().to_string_lossy().to_string();
                let r = if rel.is_empty() { name.clone() } else { format!("{}/{}", rel, name) };
                if r == skip.0 || r == skip.1 { continue; }
                let md = match e.metadata() { Ok(m) => m, Err(_) => continue };
                if md.is_dir() { walk(base, &r, skip, out); }
                else { out.insert(r, (fs::read(e.path()).unwrap_or_default(), md.permissions().mode() & 0o111 != 0)); }
            }
        }
    }
    walk(dir, "", (rdir, rfile), &mut ws);
    let mut cache = BTreeSet::new();
    if let Ok(rd) = fs::read_dir(dir.join(rdir).join("cache")) { for e in rd.flatten() { cache.insert(e.file_name().to_string_lossy().to_string()); } }
    let mut hist: DecodedHistory = BTreeMap::new();
    if let Ok(rd) = fs::read_dir(dir.join(rdir).join("history"))
    {
        for e in rd.flatten()
        {
            let name = e.file_name().to_string_lossy().to_string();
            if name.ends_with(".tmp") { continue; }
            let data = fs::read(e.path()).unwrap_or_default();
            let dec: Option<MRuleHistory> = bincode::deserialize(&data).ok();
            hist.insert(name, dec.map(|h| h.source_to_targets.into_iter().map(|(k, v)| (k.sha, v.infos.into_iter().map(|i| i.ticket.sha).collect())).collect()));
        }
    }
    (ws, cache, hist)
}

/// names of the ruler directory and of the rules file in the real run: the defaults, or (for every
/// other trace) other names given with `--directory` / `--rules`
fn real_names(explicit: bool) -> (&'static str, &'static str)
{
    if explicit { ("alt-state", "alt.rules") } else { (RULER_DIR, RULES_FILE) }
}

fn observe_model(fs: &Fs) -> (BTreeMap<String, (Vec<u8>, bool)>, BTreeSet<String>, DecodedHistory)
{
    let mut ws = BTreeMap::new();
    for (p, n) in fs.map.iter()
    {
        if let Node::File(f) = n
        {
            if !p.starts_with(".ruler") && p != RULES_FILE { ws.insert(p.clone(), ((*f.data).clone(), f.exec)); }
        }
    }
    let cache: BTreeSet<String> = cache_listing(fs).into_iter().map(|x| x.0).collect();
    let mut h = decode_history(fs);
    h.retain(|k, _| !k.ends_with(".tmp"));
    (ws, cache, h)
}

/// Model side of one trace: per step (verdict ok?, banners, observation)
type Obs = (BTreeMap<String, (Vec<u8>, bool)>, BTreeSet<String>, DecodedHistory);

/// Model side of one trace: per step (verdict ok?, banners, observation, deterministic?).
/// A build/clean step is *deterministic* when the complete DPOR exploration of its thread
/// schedules reaches one outcome and one end state; the real binary runs under whatever
/// schedule the OS picks, so only deterministic steps are compared in full (which twin of
/// two byte-identical targets is recovered and which is rebuilt, or whose permission a
/// shared cache entry carries, legitimately depends on the schedule).
fn model_trace(sc: &Scenario, ops: &[Op]) -> Option<Vec<(bool, Vec<(String, String)>, Obs, bool)>>
{
    let mut st = initial_state(sc, false);
    let mut out = vec![];
    for op in ops
    {
        let mut deterministic = true;
        if matches!(op, Op::Build { .. } | Op::Clean { .. })
        {
            let case = crate::schedeng::SchedCase { name: "realfs-step".into(), sc: sc.clone(), pre: vec![], op: op.clone() };
            let cfg = crate::schedeng::ExploreCfg { snapshots: false, por: true, bound: None, threads: 1, deadline: Instant::now() + Duration::from_secs(20),
                max_schedules: 20_000, oracles: Oracles::default(), c03: false, c04_history: false };
            let r = crate::schedeng::explore(&case, &st, &cfg);
            if r.cap_hit || r.outcomes.len() != 1 || r.end_states.len() != 1 || !r.failures.is_empty() { deterministic = false; }
        }
        let sc2 = sc.clone();
        let st2 = st.clone();
        let op2 = op.clone();
        let (r, o) = sched::run_once(vec![], move ||
        {
            let or = Oracles::default();
            let ctx = Ctx { sc: &sc2, clock: ClockModel::Strict, or: &or };
            let rc = RunCfg::serial(ClockModel::Strict);
            let mut stats = Stats::default();
            let mut f = vec![];
            let (ok, banners) = match &op2
            {
                Op::Build { goal } =>
                {
                    let rr = run_build(&st2.fs, &rc, goal);
                    let mut b: Vec<(String, String)> = rr.prints.iter().filter_map(|p| if let PrintRec::Banner(t, path) = p { Some((t.clone(), path.clone())) } else { None }).collect();
                    b.sort();
                    (rr.verdict == Verdict::Ok, b)
                },
                Op::Clean { goal } => { let rr = run_clean(&st2.fs, &rc, goal); (rr.verdict == Verdict::Ok, vec![]) },
                _ => (true, vec![]),
            };
            let ns = apply(&ctx, &st2, &op2, &mut stats, &mut f);
            (ok, banners, ns)
        });
        if o.failure.is_some() { return None; }
        let (ok, banners, ns) = r?;
        out.push((ok, banners, observe_model(&ns.fs), deterministic));
        st = ns;
        if !deterministic { break; }
    }
    Some(out)
}

/// `explicit`: pass the rules file and the ruler directory as options (with their default values)
/// instead of relying on the defaults — half of the traces do, so both ways of the command line
/// are exercised.
fn apply_real(bin: &Path, dir: &Path, sc: &Scenario, op: &Op, explicit: bool) -> Option<RealRun>
{
    let (rdir, rfile) = real_names(explicit);
    let pre: Vec<&str> = if explicit { vec!["--rules", rfile, "--directory", rdir] } else { vec![] };
    match op
    {
        Op::Edit { path, val } => { let v = sc.edits.iter().find(|(p, _)| p == path).unwrap().1[*val].clone(); write_file(dir, path, &v); None },
        Op::RmLeaf { path } | Op::Delete { path } => { let _ = fs::remove_file(dir.join(path)); None },
        Op::Tamper { path } => { write_file(dir, path, TAMPER_CONTENT.as_bytes()); None },
        Op::DropCache { name } => { let _ = fs::remove_file(dir.join(rdir).join("cache").join(name)); None },
        Op::RmRuler => { let _ = fs::remove_dir_all(dir.join(rdir)); None },
        Op::RmHistory => { let _ = fs::remove_dir_all(dir.join(rdir).join("history")); None },
        Op::RmCache => { let _ = fs::remove_dir_all(dir.join(rdir).join("cache")); None },
        Op::RmTable => { let _ = fs::remove_file(dir.join(rdir).join("current_file_states")); None },
        Op::Rules { k } => { write_file(dir, rfile, render_rules_spelled(&sc.variants[*k], sc.flat_variants.contains(k)).as_bytes()); None },
        Op::Backdate { .. } | Op::CorruptHistory { .. } | Op::CorruptTable => None,
        Op::SetAside { path } => { let _ = fs::rename(dir.join(path), dir.join(format!("{}.aside", path))); None },
        Op::MoveBack { path } => { let _ = fs::rename(dir.join(format!("{}.aside", path)), dir.join(path)); None },
        Op::Build { goal } =>
        {
            let mut args = pre.clone();
            args.push("build");
            if let Some(g) = goal { args.push(g); }
            Some(run_ruler(bin, dir, &args))
        },
        Op::Clean { goal } =>
        {
            let mut args = pre.clone();
            args.push("clean");
            if let Some(g) = goal { args.push(g); }
            Some(run_ruler(bin, dir, &args))
        },
    }
}

/// Replay one trace on the real binary and compare with the model after every op.
pub fn replay_trace_real(bin: &Path, sc: &Scenario, ops: &[Op], dir: &Path) -> Option<String>
{
    let model = match model_trace(sc, ops) { Some(m) => m, None => return Some("model execution failed".to_string()) };
    let _ = fs::remove_dir_all(dir);
    fs::create_dir_all(dir).ok()?;
    for (p, dom) in &sc.edits { write_file(dir, p, &dom[0]); }
    let explicit = ops.len() % 2 == 1;
    write_file(dir, real_names(explicit).1, render_rules_spelled(&sc.variants[0], sc.flat_variants.contains(&0)).as_bytes());
    for (i, op) in ops.iter().enumerate()
    {
        if i >= model.len() { break; }
        let real = apply_real(bin, dir, sc, op, explicit);
        let (ok, banners, (ws, cache, hist), deterministic) = &model[i];
        if let Some(rr) = &real
        {
            if rr.ok != *ok
            {
                return Some(format!("step {} {}: real binary {} (stderr {:?}) but the model {}", i, op.short(), if rr.ok { "succeeds" } else { "fails" }, crate::cli::first_line(&rr.stderr), if *ok { "succeeds" } else { "fails" }));
            }
            // (also when the build fails: the rules that finished still get their status lines)
            if *deterministic && matches!(op, Op::Build { .. }) && rr.banners != *banners
            {
                return Some(format!("step {} {}: status lines differ: real {:?} model {:?}", i, op.short(), rr.banners, banners));
            }
        }
        let (rws, rcache, rhist) = observe_real(dir, explicit);
        if !*deterministic
        {
            // schedule-dependent step: only what every schedule agrees on (C06): the bytes
            let a: BTreeMap<&String, &Vec<u8>> = rws.iter().map(|(k, v)| (k, &v.0)).collect();
            let b: BTreeMap<&String, &Vec<u8>> = ws.iter().map(|(k, v)| (k, &v.0)).collect();
            if a != b
            {
                return Some(format!("step {} {}: workspace bytes differ on a schedule-dependent step", i, op.short()));
            }
            break;
        }
        if &rws != ws
        {
            let show = |m: &BTreeMap<String, (Vec<u8>, bool)>| m.iter().map(|(k, v)| format!("{}={:?}{}", k, String::from_utf8_lossy(&v.0), if v.1 { "[x]" } else { "" })).collect::<Vec<_>>().join(" ");
            return Some(format!("step {} {}: workspace differs: real {{{}}} model {{{}}}", i, op.short(), show(&rws), show(ws)));
        }
        if &rcache != cache
        {
            return Some(format!("step {} {}: cache entries differ: real {:?} model {:?}", i, op.short(), rcache, cache));
        }
        if &rhist != hist
        {
            return Some(format!("step {} {}: rule histories differ: real {} files, model {} files", i, op.short(), rhist.len(), hist.len()));
        }
    }
    None
}

/// All op sequences of length <= depth reachable in the model (one per distinct canonical state path)
fn traces(sc: &Scenario, depth: usize) -> Vec<Vec<Op>>
{
    let sc2 = sc.clone();
    let (r, _o) = sched::run_once(vec![], move ||
    {
        let or = Oracles::default();
        let ctx = Ctx { sc: &sc2, clock: ClockModel::Strict, or: &or };
        let mut seen = std::collections::HashSet::new();
        let init = initial_state(&sc2, false);
        seen.insert(init.key(false));
        let mut frontier = vec![init];
        let mut out: Vec<Vec<Op>> = vec![];
        for _ in 0..depth
        {
            let mut next = vec![];
            for st in &frontier
            {
                for op in enabled_ops(&sc2, st)
                {
                    let mut stats = Stats::default();
                    let mut f = vec![];
                    let ns = apply(&ctx, st, &op, &mut stats, &mut f);
                    if seen.insert(ns.key(false))
                    {
                        out.push(ns.path.clone());
                        next.push(ns);
                    }
                }
            }
            frontier = next;
        }
        out
    });
    r.unwrap_or_default()
}

pub fn run_realfs(rep: &mut Report, tier: &str)
{
    // S10: targets inside a sub-directory; S13: contents that are not UTF-8; S18: zero-byte files
    let mut scs = vec![crate::scen::s6_exec(), crate::scen::s1_chain(), crate::scen::s3_multi(), crate::scen::s10_bundle(), crate::scen::s13_binary(), crate::scen::s18_empty()];
    if tier == "thorough" { scs.push(crate::scen::s4_twins()); }
    run_realfs_for(rep, tier, "C10", scs);
}

/// C10 on the real file system for a target that is a symbolic link (the in-memory file system has no
/// links): build, build, clean, build.  After the clean the target is gone from the workspace and its
/// content is readable in the cache; the last build brings it back with the same content and runs nothing.
pub fn symlink_target_probe(rep: &mut Report)
{
    let bin = match build_real_binary() { Ok(b) => b, Err(e) => { rep.machinery(e); return; } };
    let dir = scratch("symlink-target");
    let abs = |rel: &str| dir.join(rel).to_string_lossy().to_string();
    write_file(&dir, "version.txt", b"version one\n");
    write_file(&dir, "out/.keep", b"");
    let rules = format!("out/current\n:\nversion.txt\n:\nln -sf {} out/current\n;\necho ran >> commands.log\n:\n", abs("version.txt"));
    write_file(&dir, RULES_FILE, rules.as_bytes());
    let mut bad: Vec<String> = vec![];
    let ran = |d: &Path| fs::read_to_string(d.join("commands.log")).map(|s| s.lines().count()).unwrap_or(0);
    let r1 = run_ruler(&bin, &dir, &["build"]);
    if !r1.ok || fs::read(dir.join("out/current")).ok().as_deref() != Some(&b"version one\n"[..]) { rep.machinery(format!("symlink probe: the first build did not produce the link ({})", crate::cli::first_line(&r1.stderr))); let _ = fs::remove_dir_all(&dir); return; }
    let r2 = run_ruler(&bin, &dir, &["build"]);
    if !r2.ok || ran(&dir) != 1 { bad.push(format!("an immediate second build ran the command again or failed ({} executions, stderr {:?})", ran(&dir), crate::cli::first_line(&r2.stderr))); }
    let r3 = run_ruler(&bin, &dir, &["clean"]);
    if !r3.ok { bad.push(format!("clean failed: {}", crate::cli::first_line(&r3.stderr))); }
    if fs::symlink_metadata(dir.join("out/current")).is_ok() { bad.push("the target is still in the workspace after clean".to_string()); }
    let mut in_cache = false;
    if let Ok(rd) = fs::read_dir(dir.join(CACHE_DIR)) { for e in rd.flatten() { if fs::read(e.path()).ok().as_deref() == Some(&b"version one\n"[..]) { in_cache = true; } } }
    if !in_cache { bad.push("the content of the cleaned target is not in the cache".to_string()); }
    let r4 = run_ruler(&bin, &dir, &["build"]);
    if !r4.ok { bad.push(format!("the build after clean failed: {}", crate::cli::first_line(&r4.stderr))); }
    if fs::read(dir.join("out/current")).ok().as_deref() != Some(&b"version one\n"[..]) { bad.push("the target did not come back byte-identical".to_string()); }
    if ran(&dir) != 1 { bad.push(format!("a command ran although the cleaned target was recoverable ({} executions in total)", ran(&dir))); }
    let _ = fs::remove_dir_all(&dir);
    rep.add("traces_validated_against_impl", 1);
    rep.set("symlink_target_probe", json!({"history": "build ; build ; clean ; build", "findings": bad.len()}));
    if !bad.is_empty()
    {
        rep.violation(Violation
        {
            property: "C10".into(),
            signature: "C10:symlink:a target that is a symbolic link does not survive build ; build ; clean ; build".to_string(),
            summary: format!("target out/current made by `ln -sf`: {}", bad.join("; ")),
            replay: json!({"engine": "symlink"}),
        });
    }
}

/// The same replays under another property's name (C20: the status lines the real binary prints —
/// `StandardPrinter` exists only there — against the model's, step by step).
pub fn run_realfs_for(rep: &mut Report, tier: &str, prop: &str, scs: Vec<Scenario>)
{
    let bin = match build_real_binary() { Ok(b) => b, Err(e) => { rep.machinery(e); return; } };
    let thorough = tier == "thorough";
    let depth = if thorough { 4 } else { 3 };
    // keep only leaf traces: a trace that is a proper prefix of another is covered by it step by step
    let mut total = 0u64;
    let mut steps = 0u64;
    let mut per = vec![];
    let deadline = Instant::now() + Duration::from_secs(if thorough { 420 } else { 35 });
    for sc in scs
    {
        let all = traces(&sc, depth);
        let set: BTreeSet<String> = all.iter().map(|t| hist::ops_short(t)).collect();
        let leaves: Vec<Vec<Op>> = all.iter().filter(|t|
        {
            let s = hist::ops_short(t);
            !set.iter().any(|o| o.len() > s.len() && o.starts_with(&s) && o.as_bytes()[s.len()] == b' ')
        }).cloned().collect();
        let leaves = Arc::new(leaves);
        let idx = Arc::new(AtomicUsize::new(0));
        let found: Arc<Mutex<Vec<(Vec<Op>, String)>>> = Arc::new(Mutex::new(vec![]));
        let done = Arc::new(AtomicUsize::new(0));
        let stepc = Arc::new(AtomicUsize::new(0));
        let mut hs = vec![];
        for w in 0..crate::cli::threads()
        {
            let leaves = leaves.clone();
            let idx = idx.clone();
            let found = found.clone();
            let done = done.clone();
            let stepc = stepc.clone();
            let sc = sc.clone();
            let bin = bin.clone();
            hs.push(std::thread::Builder::new().stack_size(16 << 20).spawn(move ||
            {
                let dir = scratch(&format!("realfs-{}-{}", sc.name, w));
                loop
                {
                    let i = idx.fetch_add(1, Ordering::SeqCst);
                    if i >= leaves.len() || Instant::now() >= deadline { break; }
                    if let Some(msg) = replay_trace_real(&bin, &sc, &leaves[i], &dir)
                    {
                        found.lock().unwrap().push((leaves[i].clone(), msg));
                    }
                    done.fetch_add(1, Ordering::SeqCst);
                    stepc.fetch_add(leaves[i].len(), Ordering::SeqCst);
                }
                let _ = fs::remove_dir_all(&dir);
            }).unwrap());
        }
        for h in hs { let _ = h.join(); }
        let d = done.load(Ordering::SeqCst);
        total += d as u64;
        steps += stepc.load(Ordering::SeqCst) as u64;
        per.push(json!({"scenario": sc.name, "depth": depth, "model_traces": all.len(), "maximal_traces_replayed": d, "of": leaves.len()}));
        if d < leaves.len() { rep.set("realfs_complete", json!(false)); }
        if let Some(t) = leaves.first() { rep.push_sample(json!({"scenario": sc.name, "real_fs_trace": hist::ops_short(t)})); }
        let mut seen = BTreeSet::new();
        for (ops, msg) in found.lock().unwrap().iter()
        {
            let class: String = msg.splitn(2, ": ").nth(1).unwrap_or(msg).split(|c: char| c == '{' || c == '[' || c == '(').next().unwrap_or("").trim().to_string();
            if !seen.insert(class.clone()) { continue; }
            rep.violation(Violation
            {
                property: prop.to_string(),
                signature: format!("{}:realfs:{}:{}", prop, sc.name, class),
                summary: format!("real binary disagrees with the model on [{}]: {}", hist::ops_short(ops), msg),
                replay: json!({"engine": "realfs", "scenario": sc.name, "ops": ops}),
            });
        }
    }
    rep.add("real_fs_replays", total);
    rep.add("real_fs_steps", steps);
    rep.add("traces_validated_against_impl", total);
    rep.set("realfs", json!(per));
}

pub fn replay_realfs(v: &Value) -> i32
{
    let bin = match build_real_binary() { Ok(b) => b, Err(e) => { eprintln!("{}", e); return 2; } };
    let sc = match crate::scen::by_name(v["scenario"].as_str().unwrap_or("")) { Some(s) => s, None => return 2 };
    let ops: Vec<Op> = serde_json::from_value(v["ops"].clone()).unwrap_or_default();
    let dir = scratch("realfs-replay");
    let r = replay_trace_real(&bin, &sc, &ops, &dir);
    let _ = fs::remove_dir_all(&dir);
    match r { Some(m) => { println!("{}", m); 1 }, None => 0 }
}

// ---------------------------------------------------------------------------
// serve (C19)

fn free_port() -> u16
{
    let l = TcpListener::bind("127.0.0.1:0").expect("bind");
    l.local_addr().unwrap().port()
}

pub struct Resp
{
    pub status: u16,
    pub body: Vec<u8>,
}

pub fn http_get(port: u16, raw_path: &str) -> Result<Resp, String>
{
    // transient connection errors (loaded machine) are retried; a server that is gone stays gone
    let mut last = String::new();
    for attempt in 0..4
    {
        match http_get_once(port, raw_path)
        {
            Ok(r) => return Ok(r),
            // a request that timed out is not repeated (the server had 10 s); connection errors are
            Err(e) => { let timed_out = e.starts_with("read:") || e.starts_with("write:"); last = e; if timed_out { break; } std::thread::sleep(Duration::from_millis(50 * (attempt + 1))); },
        }
    }
    Err(last)
}

fn http_get_once(port: u16, raw_path: &str) -> Result<Resp, String>
{
    let mut s = TcpStream::connect(("127.0.0.1", port)).map_err(|e| format!("connect: {}", e))?;
    s.set_read_timeout(Some(Duration::from_secs(10))).ok();
    s.set_write_timeout(Some(Duration::from_secs(10))).ok();
    let req = format!("GET {} HTTP/1.1\r\nHost: 127.0.0.1\r\nConnection: close\r\n\r\n", raw_path);
    s.write_all(req.as_bytes()).map_err(|e| format!("write: {}", e))?;
    let mut buf = vec![];
    s.read_to_end(&mut buf).map_err(|e| format!("read: {}", e))?;
    let split = buf.windows(4).position(|w| w == b"\r\n\r\n").ok_or_else(|| format!("no header end in {:?}", String::from_utf8_lossy(&buf[..buf.len().min(80)])))?;
    let head = String::from_utf8_lossy(&buf[..split]).to_string();
    let status: u16 = head.split_whitespace().nth(1).and_then(|x| x.parse().ok()).ok_or("no status")?;
    let mut body = buf[split + 4..].to_vec();
    if head.to_ascii_lowercase().contains("transfer-encoding: chunked")
    {
        let mut out = vec![];
        let mut i = 0;
        while i < body.len()
        {
            let e = match body[i..].windows(2).position(|w| w == b"\r\n") { Some(e) => e, None => break };
            let n = usize::from_str_radix(String::from_utf8_lossy(&body[i..i + e]).trim(), 16).unwrap_or(0);
            if n == 0 { break; }
            let st = i + e + 2;
            if st + n > body.len() { break; }
            out.extend_from_slice(&body[st..st + n]);
            i = st + n + 2;
        }
        body = out;
    }
    Ok(Resp { status, body })
}

struct Server
{
    child: Child,
    port: u16,
}

impl Drop for Server
{
    fn drop(&mut self)
    {
        let _ = self.child.kill();
        let _ = self.child.wait();
    }
}

static START_LOCK: Mutex<()> = Mutex::new(());

/// Start `ruler serve <port>` in `dir`.  Port choice and start-up are serialised over all
/// worker threads (two threads must not be handed the same free port), and the child must
/// still be alive after the first successful connect (a child that lost the race for a port
/// has exited, and the connect reached somebody else's server).
/// `alt`: the ruler directory is moved to another name and given with `--directory` (every other
/// materialised directory is served that way, so the option is exercised as well as the default)
fn start_server(bin: &Path, dir: &Path, alt: bool) -> Result<Server, String>
{
    const ALT: &str = "alt-state";
    if alt
    {
        let _ = fs::remove_dir_all(dir.join(ALT));
        fs::rename(dir.join(RULER_DIR), dir.join(ALT)).map_err(|e| format!("cannot move the ruler directory: {}", e))?;
    }
    let _g = match START_LOCK.lock() { Ok(g) => g, Err(p) => p.into_inner() };
    let mut last = String::new();
    for _attempt in 0..8
    {
        let port = free_port();
        let ps = port.to_string();
        let args: Vec<&str> = if alt { vec!["--directory", ALT, "serve", &ps] } else { vec!["serve", &ps] };
        let child = Command::new(bin).args(&args).current_dir(dir).stdout(Stdio::null()).stderr(Stdio::null()).spawn().map_err(|e| format!("spawn: {}", e))?;
        let mut srv = Server { child, port };
        let start = Instant::now();
        let mut connected = false;
        while start.elapsed() < Duration::from_secs(15)
        {
            if let Ok(Some(st)) = srv.child.try_wait() { last = format!("server exited at start-up: {:?}", st); break; }
            if TcpStream::connect(("127.0.0.1", port)).is_ok() { connected = true; break; }
            std::thread::sleep(Duration::from_millis(20));
        }
        if connected
        {
            std::thread::sleep(Duration::from_millis(40));
            if let Ok(None) = srv.child.try_wait() { return Ok(srv); }
            last = "server exited right after start-up (port taken?)".to_string();
        }
    }
    Err(format!("server did not start: {}", last))
}

fn materialise(fs_model: &Fs, dir: &Path)
{
    let _ = fs::remove_dir_all(dir);
    fs::create_dir_all(dir).unwrap();
    for (p, n) in fs_model.map.iter()
    {
        match n
        {
            Node::Dir => { let _ = fs::create_dir_all(dir.join(p)); },
            Node::File(f) =>
            {
                let path = dir.join(p);
                if let Some(parent) = path.parent() { let _ = fs::create_dir_all(parent); }
                fs::write(&path, &*f.data).unwrap();
                if f.exec { let _ = fs::set_permissions(&path, fs::Permissions::from_mode(0o755)); }
            },
        }
    }
}

pub fn hostile_names() -> Vec<String>
{
    let valid = refsha::encode62(&refsha::sha256(b"some content that is not cached"));
    let mut v: Vec<String> = vec![
        "".into(), "0".into(), "a".into(), "Z".repeat(42), "0".repeat(42), "0".repeat(44), "a".repeat(86), "Z".repeat(43),
        "-".repeat(43), "_".repeat(43), ".".repeat(43), "..".into(), ".".into(), "%2e%2e".into(), "%2E%2E%2Fcurrent_file_states".into(),
        "..%2fcurrent_file_states".into(), "../current_file_states".into(), "../../build.rules".into(), "inbox".into(), "current_file_states".into(),
        "%00".into(), "caf%C3%A9".into(), format!("{}%00", &valid[..42]), format!("{}/", valid), format!("{}/extra", valid), format!("{}?x=1", "0".repeat(10)),
        format!("{}.", &valid[..42]), format!("{}-", &valid[..42]), format!("{} ", &valid[..42]).replace(' ', "%20"), format!("{}%2F", &valid[..40]),
        valid.to_uppercase().replace(|c: char| c.is_ascii_digit(), "-"), format!("x{}", valid), format!("{}x", valid), "history".into(), "cache".into(),
        "*".into(), "%2A".into(), "~".into(), "%7E".into(), "a b".replace(' ', "%20"), "\\..\\current_file_states".replace('\\', "%5C"),
        "0".repeat(5000), "Z".repeat(10000), format!("{}{}", valid, valid), format!("/{}", valid), format!("{}//", valid), format!(".ruler/cache/{}", valid),
        format!("%2e%2e%2f%2e%2e%2f{}", valid), format!("{}%0d%0aX-Injected:%201", &valid[..30]), "%".into(), "%zz".into(), "%c0%af".into(), "%ff%fe".into(),
    ];
    for i in [0usize, 1, 21, 42]
    {
        for c in ["-", "_", ".", "%2F", "%25", "+", "=", "!"]
        {
            let mut s: Vec<String> = valid.chars().map(|c| c.to_string()).collect();
            s[i] = c.to_string();
            v.push(s.concat());
        }
    }
    v
}

/// Names that are NOT base-62 encodings but that a lenient decoder (digit value computed from the
/// character code relative to '0', 'a' or 'A') would map to the same 256-bit value as `name`:
/// a foreign character standing for an in-range digit, or for digit+62 with the neighbouring digit
/// (either side: the harness does not assume the digit order) lowered by one.
pub fn lenient_aliases(name: &str) -> Vec<String>
{
    let digits = b"0123456789abcdefghijklmnopqrstuvwxyzABCDEFGHIJKLMNOPQRSTUVWXYZ";
    let val = |c: u8| digits.iter().position(|d| *d == c);
    let b = name.as_bytes();
    if b.len() != 43 || b.iter().any(|c| val(*c).is_none()) { return vec![]; }
    let mut out: BTreeSet<String> = BTreeSet::new();
    let enc = |v: &[u8]| -> String
    {
        // percent-encode what is not URL-safe inside a path segment
        let mut s = String::new();
        for c in v
        {
            if c.is_ascii_alphanumeric() || b"-_.~!$&'()*+,;=:@".contains(c) { s.push(*c as char); } else { s.push_str(&format!("%{:02X}", c)); }
        }
        s
    };
    for c in 0x21u8..0x7f
    {
        if c.is_ascii_alphanumeric() || c == b'/' { continue; }
        for (base, basev) in [(b'0', 0i32), (b'a', 10), (b'A', 36)]
        {
            let v = c as i32 - base as i32 + basev;
            if v < 0 { continue; }
            for i in 0..43
            {
                let d = val(b[i]).unwrap() as i32;
                if v < 62 && d == v
                {
                    let mut x = b.to_vec();
                    x[i] = c;
                    out.insert(enc(&x));
                }
                if v >= 62 && v < 124 && d == v - 62
                {
                    for j in [i.wrapping_sub(1), i + 1]
                    {
                        if j >= 43 { continue; }
                        let dj = val(b[j]).unwrap();
                        if dj == 0 { continue; }
                        let mut x = b.to_vec();
                        x[i] = c;
                        x[j] = digits[dj - 1];
                        out.insert(enc(&x));
                    }
                }
            }
        }
    }
    out.into_iter().collect()
}

/// The complete request menu for one materialised directory; returns findings.
fn serve_menu(port: u16, fs_model: &Fs, extra_valid: &[String], requests: &mut u64, okays: &mut u64, aliases: &mut u64) -> Vec<(String, String)>
{
    let mut bad: Vec<(String, String)> = vec![];
    let cache = cache_listing(fs_model);
    let histd = decode_history(fs_model);
    // files that must never be served
    let mut forbidden: Vec<Vec<u8>> = vec![];
    for (p, n) in fs_model.map.iter()
    {
        if let Node::File(f) = n
        {
            if !p.starts_with(".ruler/cache/") && !p.starts_with(".ruler/history/") && !f.data.is_empty() { forbidden.push((*f.data).clone()); }
        }
    }
    // once the server has stopped answering, the remaining requests of this directory are not sent
    // (each would only wait for its time-out); the finding is already recorded
    let mut dead = false;
    let mut get = |path: &str, bad: &mut Vec<(String, String)>| -> Option<Resp>
    {
        if dead { return None; }
        *requests += 1;
        match http_get(port, path)
        {
            Ok(r) =>
            {
                if forbidden.iter().any(|f| *f == r.body) && !cache.values().any(|c| **c == r.body)
                {
                    bad.push(("a file outside the cache and history directories was served".into(), format!("GET {}", path)));
                }
                Some(r)
            },
            Err(e) => { dead = true; bad.push(("the server stopped answering".into(), format!("GET {}: {}", path, e))); None },
        }
    };
    // every cache entry: 200, exact bytes, name = hash of body
    for (name, data) in &cache
    {
        if name.len() != 43 { continue; }
        if let Some(r) = get(&format!("/files/{}", name), &mut bad)
        {
            if r.status != 200 || r.body != **data
            {
                bad.push(("a cached file is not returned (200 + exact bytes)".into(), format!("GET /files/{} -> {} with {} bytes", name, r.status, r.body.len())));
            }
            else
            {
                *okays += 1;
                if refsha::cache_name(&r.body) != *name { bad.push(("served bytes do not hash to the requested name".into(), name.clone())); }
            }
        }
    }
    // extra path segments after a cached hash: not a file name, 404
    for (name, data) in cache.iter().filter(|(n, _)| n.len() == 43).take(3)
    {
        for tail in ["/x", "/", "/..", "/../../current_file_states", "/../../../secret.txt", "/%2e%2e/%2e%2e/current_file_states", &format!("/{}", name)]
        {
            let path = format!("/files/{}{}", name, tail);
            if let Some(r) = get(&path, &mut bad)
            {
                if r.status != 404 && tail != "/"
                {
                    bad.push(("a path with extra segments after a cached hash does not give 404".into(), format!("GET {} -> {} ({} bytes{})", path, r.status, r.body.len(), if r.body == **data { ", the cached file" } else { "" })));
                }
            }
        }
    }
    // valid hashes that are not cached: 404
    let mut absent: Vec<String> = extra_valid.to_vec();
    absent.extend(histd.keys().filter(|k| k.len() == 43).cloned());
    for name in absent.iter().filter(|n| !cache.contains_key(*n))
    {
        if let Some(r) = get(&format!("/files/{}", name), &mut bad)
        {
            if r.status != 404 { bad.push(("a hash that is not in the cache does not give 404".into(), format!("GET /files/{} -> {}", name, r.status))); }
        }
    }
    // every recorded (rule, sources) pair: 200 + newline-joined target hashes in target order
    let mut all_sources: BTreeSet<String> = BTreeSet::new();
    for (rule, dec) in &histd
    {
        if let Some(m) = dec
        {
            for (src, targets) in m
            {
                let s = refsha::encode62(src);
                all_sources.insert(s.clone());
                let want = targets.iter().map(|t| refsha::encode62(t)).collect::<Vec<_>>().join("\n");
                if let Some(r) = get(&format!("/rules/{}/{}", rule, s), &mut bad)
                {
                    if r.status != 200 || r.body != want.as_bytes()
                    {
                        bad.push(("a recorded rule result is not returned (200 + target hashes in order)".into(), format!("GET /rules/{}/{} -> {} {:?}", rule, s, r.status, String::from_utf8_lossy(&r.body))));
                    }
                    else { *okays += 1; }
                }
            }
        }
    }
    // cross pairs that are not recorded: 404
    for (rule, dec) in &histd
    {
        if rule.len() != 43 { continue; }
        for s in all_sources.iter().chain(extra_valid.iter())
        {
            let recorded = match dec { Some(m) => m.keys().any(|k| refsha::encode62(k) == *s), None => false };
            if recorded { continue; }
            if let Some(r) = get(&format!("/rules/{}/{}", rule, s), &mut bad)
            {
                if r.status != 404 { bad.push(("an unrecorded (rule, sources) pair does not give 404".into(), format!("GET /rules/{}/{} -> {}", rule, s, r.status))); }
            }
        }
    }
    for v in extra_valid
    {
        if histd.contains_key(v) { continue; }
        if let Some(r) = get(&format!("/rules/{}/{}", v, v), &mut bad)
        {
            if r.status != 404 { bad.push(("an unknown rule does not give 404".into(), format!("GET /rules/{}/{} -> {}", v, v, r.status))); }
        }
    }
    // malformed / hostile names on both endpoints: 404
    let some_valid = cache.keys().next().cloned().or_else(|| extra_valid.first().cloned()).unwrap_or_else(|| "0".repeat(43));
    for h in hostile_names()
    {
        for path in [format!("/files/{}", h), format!("/rules/{}/{}", h, some_valid), format!("/rules/{}/{}", some_valid, h)]
        {
            if let Some(r) = get(&path, &mut bad)
            {
                // a name that happens to decode (e.g. after percent-decoding) is judged by the reference decoder
                let seg_ok = |s: &str| refsha::decode62(s).is_ok();
                let decoded: String = percent_decode(&h);
                let plausible = seg_ok(&decoded) && !decoded.contains('/');
                if r.status != 404 && !plausible
                {
                    bad.push(("a malformed name does not give 404".into(), format!("GET {} -> {}", path, r.status)));
                }
            }
        }
    }
    // aliases of names that DO exist under lenient decoders: still malformed, still 404
    for (name, data) in cache.iter().filter(|(n, _)| n.len() == 43).take(2)
    {
        for a in lenient_aliases(name)
        {
            *aliases += 1;
            if let Some(r) = get(&format!("/files/{}", a), &mut bad)
            {
                if r.status != 404
                {
                    bad.push(("a malformed name does not give 404".into(), format!("GET /files/{} -> {}{} (a non-base-62 alias of the cached {})", a, r.status, if r.body == **data { " with the cached bytes" } else { "" }, name)));
                }
            }
        }
    }
    if let Some((rule, Some(m))) = histd.iter().find(|(r, d)| r.len() == 43 && d.as_ref().map(|m| !m.is_empty()).unwrap_or(false))
    {
        let src = refsha::encode62(m.keys().next().unwrap());
        for (path, what) in lenient_aliases(rule).into_iter().map(|a| (format!("/rules/{}/{}", a, src), "rule"))
            .chain(lenient_aliases(&src).into_iter().map(|a| (format!("/rules/{}/{}", rule, a), "sources")))
        {
            *aliases += 1;
            if let Some(r) = get(&path, &mut bad)
            {
                if r.status != 404
                {
                    bad.push(("a malformed name does not give 404".into(), format!("GET {} -> {} (a non-base-62 alias of a recorded {} hash)", path, r.status, what)));
                }
            }
        }
    }
    for path in ["/", "/files", "/files/", "/rules", "/rules/", &format!("/rules/{}", some_valid), "/current_file_states", "/cache", &format!("/cache/{}", some_valid), "/../build.rules"]
    {
        if let Some(r) = get(path, &mut bad)
        {
            if r.status == 200 { bad.push(("a path outside the two endpoints is served".into(), format!("GET {} -> 200", path))); }
        }
    }
    // still alive
    if dead { return bad; }
    if let Some((name, data)) = cache.iter().find(|(n, _)| n.len() == 43)
    {
        match http_get(port, &format!("/files/{}", name))
        {
            Ok(r) if r.status == 200 && r.body == **data => {},
            other => bad.push(("the server does not keep running after hostile requests".into(), format!("{:?}", other.map(|r| r.status)))),
        }
        *requests += 1;
    }
    else
    {
        *requests += 1;
        if http_get(port, &format!("/files/{}", some_valid)).map(|r| r.status) != Ok(404)
        {
            bad.push(("the server does not keep running after hostile requests".into(), String::new()));
        }
    }
    bad
}

fn percent_decode(s: &str) -> String
{
    let b = s.as_bytes();
    let mut out = vec![];
    let mut i = 0;
    while i < b.len()
    {
        if b[i] == b'%' && i + 3 <= b.len()
        {
            if let Ok(v) = u8::from_str_radix(&s[i + 1..i + 3], 16) { out.push(v); i += 3; continue; }
        }
        out.push(b[i]);
        i += 1;
    }
    String::from_utf8_lossy(&out).to_string()
}

/// distinct ruler directories (cache + history) reached by hist on the scenario
fn ruler_dirs(sc: &Scenario, depth: usize, cap: usize) -> Vec<(Vec<Op>, Fs)>
{
    let sc2 = sc.clone();
    let (r, _o) = sched::run_once(vec![], move ||
    {
        let or = Oracles::default();
        let ctx = Ctx { sc: &sc2, clock: ClockModel::Strict, or: &or };
        let mut seen = std::collections::HashSet::new();
        let mut seen_dirs: BTreeSet<String> = BTreeSet::new();
        let init = initial_state(&sc2, false);
        seen.insert(init.key(false));
        let mut frontier = vec![init];
        let mut out: Vec<(Vec<Op>, Fs)> = vec![];
        for _ in 0..depth
        {
            let mut next = vec![];
            for st in &frontier
            {
                for op in enabled_ops(&sc2, st)
                {
                    let mut stats = Stats::default();
                    let mut f = vec![];
                    let ns = apply(&ctx, st, &op, &mut stats, &mut f);
                    if seen.insert(ns.key(false))
                    {
                        let k = format!("{:?}|{:?}", cache_listing(&ns.fs).keys().collect::<Vec<_>>(), decode_history(&ns.fs));
                        if ns.fs.is_dir(CACHE_DIR) && seen_dirs.insert(k) { out.push((ns.path.clone(), ns.fs.clone())); }
                        next.push(ns);
                    }
                }
            }
            frontier = next;
        }
        out
    });
    let mut v = r.unwrap_or_default();
    // prefer the richest directories
    v.sort_by_key(|(_p, fs)| std::cmp::Reverse(cache_listing(fs).len() * 10 + decode_history(fs).len()));
    v.truncate(cap);
    v
}

pub fn run_serve(rep: &mut Report, tier: &str)
{
    let bin = match build_real_binary() { Ok(b) => b, Err(e) => { rep.machinery(e); return; } };
    let thorough = tier == "thorough";
    let cap = if thorough { 120 } else { 24 };
    let mut dirs: Vec<(String, Vec<Op>, Fs)> = vec![];
    // S13: non-UTF-8 entries; S18: zero-byte entries; S16: entries of 4 KiB - 79 KiB (longer than any one read or write)
    // S9: several rules with one and the same sources hash and different outputs
    for sc in [crate::scen::s1_chain(), crate::scen::s3_multi(), crate::scen::s13_binary(), crate::scen::s18_empty(), crate::scen::s16_big(), crate::scen::s9_scope()]
    {
        for (p, fs) in ruler_dirs(&sc, if thorough { 5 } else { 4 }, cap / 6)
        {
            dirs.push((sc.name.clone(), p, fs));
        }
    }
    let dirs = Arc::new(dirs);
    let idx = Arc::new(AtomicUsize::new(0));
    let found: Arc<Mutex<Vec<(usize, String, String)>>> = Arc::new(Mutex::new(vec![]));
    let reqs = Arc::new(Mutex::new((0u64, 0u64, 0u64)));
    let machinery: Arc<Mutex<Vec<String>>> = Arc::new(Mutex::new(vec![]));
    let mut hs = vec![];
    for w in 0..crate::cli::threads().min(8)
    {
        let dirs = dirs.clone();
        let idx = idx.clone();
        let found = found.clone();
        let reqs = reqs.clone();
        let machinery = machinery.clone();
        let bin = bin.clone();
        hs.push(std::thread::spawn(move ||
        {
            let dir = scratch(&format!("serve-{}", w));
            loop
            {
                let i = idx.fetch_add(1, Ordering::SeqCst);
                if i >= dirs.len() { break; }
                let (_sc, _path, fs_model) = &dirs[i];
                // plant files that must not be served
                let mut fsm = fs_model.clone();
                fsm.put("secret.txt", crate::memsys::bytes("TOP SECRET outside .ruler"), 1, None);
                fsm.put(".ruler/private-note", crate::memsys::bytes("inside .ruler but outside cache and history"), 1, None);
                materialise(&fsm, &dir);
                // things that are not regular files under well-formed names inside the cache directory:
                // the cache does not "hold bytes" for them, so they are 404 like any absent hash
                let dir_name = refsha::encode62(&refsha::sha256(b"a directory sitting in the cache"));
                let fifo_name = refsha::encode62(&refsha::sha256(b"a named pipe sitting in the cache"));
                let _ = fs::create_dir_all(dir.join(CACHE_DIR).join(&dir_name));
                let _ = Command::new("mkfifo").arg(dir.join(CACHE_DIR).join(&fifo_name)).status();
                let srv = match start_server(&bin, &dir, i % 2 == 1) { Ok(s) => s, Err(e) => { machinery.lock().unwrap().push(e); continue; } };
                // valid hashes that are not cache entries: leaf hashes, a rule ticket, an arbitrary one
                let mut extra: Vec<String> = vec![refsha::encode62(&refsha::sha256(b"not cached anywhere")), refsha::encode62(&[0u8; 32]), refsha::encode62(&[0xff; 32]), dir_name, fifo_name];
                for (p, n) in fsm.map.iter() { if let Node::File(f) = n { if !p.starts_with(".ruler") { extra.push(refsha::cache_name(&f.data)); } } }
                let (mut r, mut k, mut al) = (0u64, 0u64, 0u64);
                let bad = serve_menu(srv.port, &fsm, &extra, &mut r, &mut k, &mut al);
                { let mut g = reqs.lock().unwrap(); g.0 += r; g.1 += k; g.2 += al; }
                for (what, detail) in bad { found.lock().unwrap().push((i, what, detail)); }
                drop(srv);
            }
            let _ = fs::remove_dir_all(&dir);
        }));
    }
    for h in hs { let _ = h.join(); }
    for m in machinery.lock().unwrap().iter() { rep.machinery(m.clone()); }
    let (r, k, al) = *reqs.lock().unwrap();
    rep.set("states", json!(dirs.len()));
    rep.set("transitions", json!(r));
    rep.set("traces_validated_against_impl", json!(r));
    rep.set("requests", json!(r));
    rep.set("requests_answered_200_with_exact_content", json!(k));
    rep.set("hostile_names_per_endpoint_position", json!(hostile_names().len()));
    rep.set("lenient_decoder_alias_requests", json!(al));
    rep.set("exhaustive", json!(true));
    rep.set("rule", json!("every distinct (cache listing, decoded history) directory reached by hist on S1/S3 up to the cap, richest first; per directory the complete request menu: every cache entry, every valid hash not cached, every recorded (rule, sources) pair, every cross pair, the hostile list on /files and both /rules positions, every non-base-62 alias of two cached names and one recorded (rule, sources) pair under the three offset-arithmetic lenient decoders, paths outside the endpoints"));
    for (sc, p, fs) in dirs.iter().take(3)
    {
        rep.push_sample(json!({"scenario": sc, "history_that_produced_the_directory": hist::ops_short(p), "cache_entries": cache_listing(fs).len(), "history_files": decode_history(fs).len()}));
    }
    let mut seen = BTreeSet::new();
    for (i, what, detail) in found.lock().unwrap().iter()
    {
        if !seen.insert(what.clone()) { continue; }
        let (sc, p, _fs) = &dirs[*i];
        rep.violation(Violation
        {
            property: "C19".into(),
            signature: format!("C19:serve:{}", what),
            summary: format!("{}: {} (directory produced by {} [{}])", what, detail, sc, hist::ops_short(p)),
            replay: json!({"engine": "serve", "scenario": sc, "ops": p, "what": what, "alt": *i % 2 == 1}),
        });
    }
}

pub fn replay_serve(v: &Value) -> i32
{
    let bin = match build_real_binary() { Ok(b) => b, Err(e) => { eprintln!("{}", e); return 2; } };
    let sc = match crate::scen::by_name(v["scenario"].as_str().unwrap_or("")) { Some(s) => s, None => return 2 };
    let ops: Vec<Op> = serde_json::from_value(v["ops"].clone()).unwrap_or_default();
    let or = Oracles::default();
    let (_f, _fail, st) = hist::replay_history(&sc, ClockModel::Strict, &or, false, false, &ops);
    let mut fsm = st.fs.clone();
    fsm.put("secret.txt", crate::memsys::bytes("TOP SECRET outside .ruler"), 1, None);
    fsm.put(".ruler/private-note", crate::memsys::bytes("inside .ruler but outside cache and history"), 1, None);
    let dir = scratch("serve-replay");
    materialise(&fsm, &dir);
    let srv = match start_server(&bin, &dir, v["alt"].as_bool().unwrap_or(false)) { Ok(s) => s, Err(e) => { eprintln!("{}", e); return 2; } };
    let extra = vec![refsha::encode62(&refsha::sha256(b"not cached anywhere"))];
    let (mut r, mut k, mut al) = (0, 0, 0);
    let bad = serve_menu(srv.port, &fsm, &extra, &mut r, &mut k, &mut al);
    drop(srv);
    let _ = fs::remove_dir_all(&dir);
    let what = v["what"].as_str().unwrap_or("");
    let mut hit = false;
    for (w, d) in bad { println!("{}: {}", w, d); if w == what || what.is_empty() { hit = true; } }
    if hit { 1 } else { 0 }
}
