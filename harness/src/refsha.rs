//! Reference SHA-256 and base-62 text form, written independently of ruler
//! (no rust-crypto, no num-bigint).  Cross-checked against ruler's in C15.

const K: [u32; 64] = [
    0x428a2f98, 0x71374491, 0xb5c0fbcf, 0xe9b5dba5, 0x3956c25b, 0x59f111f1, 0x923f82a4, 0xab1c5ed5,
    0xd807aa98, 0x12835b01, 0x243185be, 0x550c7dc3, 0x72be5d74, 0x80deb1fe, 0x9bdc06a7, 0xc19bf174,
    0xe49b69c1, 0xefbe4786, 0x0fc19dc6, 0x240ca1cc, 0x2de92c6f, 0x4a7484aa, 0x5cb0a9dc, 0x76f988da,
    0x983e5152, 0xa831c66d, 0xb00327c8, 0xbf597fc7, 0xc6e00bf3, 0xd5a79147, 0x06ca6351, 0x14292967,
    0x27b70a85, 0x2e1b2138, 0x4d2c6dfc, 0x53380d13, 0x650a7354, 0x766a0abb, 0x81c2c92e, 0x92722c85,
    0xa2bfe8a1, 0xa81a664b, 0xc24b8b70, 0xc76c51a3, 0xd192e819, 0xd6990624, 0xf40e3585, 0x106aa070,
    0x19a4c116, 0x1e376c08, 0x2748774c, 0x34b0bcb5, 0x391c0cb3, 0x4ed8aa4a, 0x5b9cca4f, 0x682e6ff3,
    0x748f82ee, 0x78a5636f, 0x84c87814, 0x8cc70208, 0x90befffa, 0xa4506ceb, 0xbef9a3f7, 0xc67178f2,
];

pub struct Sha256
{
    h: [u32; 8],
    buf: Vec<u8>,
    len: u64,
}

impl Sha256
{
    pub fn new() -> Self
    {
        Sha256
        {
            h: [0x6a09e667, 0xbb67ae85, 0x3c6ef372, 0xa54ff53a, 0x510e527f, 0x9b05688c, 0x1f83d9ab, 0x5be0cd19],
            buf: Vec::with_capacity(64),
            len: 0,
        }
    }

    fn block(h: &mut [u32; 8], b: &[u8])
    {
        let mut w = [0u32; 64];
        for i in 0..16
        {
            w[i] = u32::from_be_bytes([b[4*i], b[4*i+1], b[4*i+2], b[4*i+3]]);
        }
        for i in 16..64
        {
            let s0 = w[i-15].rotate_right(7) ^ w[i-15].rotate_right(18) ^ (w[i-15] >> 3);
            let s1 = w[i-2].rotate_right(17) ^ w[i-2].rotate_right(19) ^ (w[i-2] >> 10);
            w[i] = w[i-16].wrapping_add(s0).wrapping_add(w[i-7]).wrapping_add(s1);
        }
        let mut v = *h;
        for i in 0..64
        {
            let s1 = v[4].rotate_right(6) ^ v[4].rotate_right(11) ^ v[4].rotate_right(25);
            let ch = (v[4] & v[5]) ^ ((!v[4]) & v[6]);
            let t1 = v[7].wrapping_add(s1).wrapping_add(ch).wrapping_add(K[i]).wrapping_add(w[i]);
            let s0 = v[0].rotate_right(2) ^ v[0].rotate_right(13) ^ v[0].rotate_right(22);
            let mj = (v[0] & v[1]) ^ (v[0] & v[2]) ^ (v[1] & v[2]);
            let t2 = s0.wrapping_add(mj);
            v[7] = v[6]; v[6] = v[5]; v[5] = v[4];
            v[4] = v[3].wrapping_add(t1);
            v[3] = v[2]; v[2] = v[1]; v[1] = v[0];
            v[0] = t1.wrapping_add(t2);
        }
        for i in 0..8
        {
            h[i] = h[i].wrapping_add(v[i]);
        }
    }

    pub fn update(&mut self, mut data: &[u8])
    {
        self.len += data.len() as u64;
        if !self.buf.is_empty()
        {
            let need = 64 - self.buf.len();
            let take = need.min(data.len());
            self.buf.extend_from_slice(&data[..take]);
            data = &data[take..];
            if self.buf.len() == 64
            {
                let b = std::mem::take(&mut self.buf);
                Self::block(&mut self.h, &b);
            }
        }
        while data.len() >= 64
        {
            Self::block(&mut self.h, &data[..64]);
            data = &data[64..];
        }
        if !data.is_empty()
        {
            self.buf.extend_from_slice(data);
        }
    }

    pub fn finish(mut self) -> [u8; 32]
    {
        let bitlen = self.len.wrapping_mul(8);
        let mut tail = std::mem::take(&mut self.buf);
        tail.push(0x80);
        while tail.len() % 64 != 56
        {
            tail.push(0);
        }
        tail.extend_from_slice(&bitlen.to_be_bytes());
        for chunk in tail.chunks(64)
        {
            Self::block(&mut self.h, chunk);
        }
        let mut out = [0u8; 32];
        for i in 0..8
        {
            out[4*i..4*i+4].copy_from_slice(&self.h[i].to_be_bytes());
        }
        out
    }
}

pub fn sha256(data: &[u8]) -> [u8; 32]
{
    let mut s = Sha256::new();
    s.update(data);
    s.finish()
}

const ALPHABET: &[u8; 62] = b"0123456789abcdefghijklmnopqrstuvwxyzABCDEFGHIJKLMNOPQRSTUVWXYZ";

/// The 32 bytes are read as a little-endian integer; digits are written least
/// significant first and padded with '0' to exactly 43 characters.
pub fn encode62(bytes: &[u8; 32]) -> String
{
    // big-endian limbs for schoolbook division by 62
    let mut n: Vec<u8> = bytes.iter().rev().cloned().collect();
    let mut out = Vec::with_capacity(43);
    for _ in 0..43
    {
        let mut rem: u32 = 0;
        for limb in n.iter_mut()
        {
            let cur = rem * 256 + (*limb as u32);
            *limb = (cur / 62) as u8;
            rem = cur % 62;
        }
        out.push(ALPHABET[rem as usize]);
    }
    // 62^43 > 2^256 so n is zero now
    String::from_utf8(out).unwrap()
}

#[derive(Debug, PartialEq, Clone)]
pub enum Dec62Error
{
    InvalidLength,
    InvalidCharacter,
    Overflow,
}

pub fn digit62(c: u8) -> Option<u32>
{
    match c
    {
        b'0'..=b'9' => Some((c - b'0') as u32),
        b'a'..=b'z' => Some((c - b'a') as u32 + 10),
        b'A'..=b'Z' => Some((c - b'A') as u32 + 36),
        _ => None,
    }
}

/// Independent decode: length must be 43 bytes, every char a base-62 digit,
/// value < 2^256.
pub fn decode62(tag: &str) -> Result<[u8; 32], Dec62Error>
{
    let b = tag.as_bytes();
    if b.len() != 43
    {
        return Err(Dec62Error::InvalidLength);
    }
    if b.iter().any(|&c| digit62(c).is_none())
    {
        return Err(Dec62Error::InvalidCharacter);
    }
    // value = sum digit_i * 62^i ; Horner from the most significant digit (last char)
    let mut n = [0u8; 40]; // little-endian, room for overflow detection
    for &c in b.iter().rev()
    {
        let d = match digit62(c)
        {
            Some(d) => d,
            None => return Err(Dec62Error::InvalidCharacter),
        };
        let mut carry: u32 = d;
        for limb in n.iter_mut()
        {
            let cur = (*limb as u32) * 62 + carry;
            *limb = (cur & 0xff) as u8;
            carry = cur >> 8;
        }
        if carry != 0
        {
            return Err(Dec62Error::Overflow);
        }
    }
    if n[32..].iter().any(|&x| x != 0)
    {
        return Err(Dec62Error::Overflow);
    }
    let mut out = [0u8; 32];
    out.copy_from_slice(&n[..32]);
    Ok(out)
}

/// Name of the cache entry that must hold `data`.
pub fn cache_name(data: &[u8]) -> String
{
    encode62(&sha256(data))
}

pub fn hex(bytes: &[u8]) -> String
{
    let mut s = String::new();
    for b in bytes
    {
        s.push_str(&format!("{:02x}", b));
    }
    s
}
