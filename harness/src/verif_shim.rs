//! The target of the one hook in /repo: with `--cfg ruler_verif`, `src/build.rs`
//! imports `thread` and `mpsc` from here instead of from `std`.
//!
//! Both are thin wrappers over shuttle's drop-in replacements, so every spawn, join,
//! send, receive and *endpoint drop* of the real `build()` / `clean()` is a scheduling
//! point of our own scheduler (`crate::sched`).  Before each such point the wrapper
//! *declares* the operation the task is about to perform (`sched::declare`), which is
//! what the sleep-set partial-order reduction needs: at every scheduling point the
//! next visible operation of every runnable task is known.
use crate::sched::{declare, in_execution, OpDesc};

pub mod thread
{
    use super::*;

    pub struct JoinHandle<T>
    {
        inner: shuttle::thread::JoinHandle<T>,
        n: usize,
    }

    impl<T> JoinHandle<T>
    {
        pub fn join(self) -> std::thread::Result<T>
        {
            declare(OpDesc::Thread(self.n, "join"));
            self.inner.join()
        }
    }

    pub fn spawn<F, T>(f: F) -> JoinHandle<T>
    where
        F: FnOnce() -> T + Send + 'static,
        T: Send + 'static,
    {
        let n = crate::sched::fresh_thread_id();
        declare(OpDesc::Thread(n, "spawn"));
        JoinHandle
        {
            n,
            inner: shuttle::thread::spawn(move ||
            {
                declare(OpDesc::Thread(n, "start"));
                let r = f();
                declare(OpDesc::Thread(n, "exit"));
                r
            }),
        }
    }
}

pub mod mpsc
{
    use super::*;
    pub use std::sync::mpsc::{RecvError, SendError};

    pub struct Sender<T>
    {
        inner: Option<shuttle::sync::mpsc::Sender<T>>,
        id: usize,
    }

    pub struct Receiver<T>
    {
        inner: Option<shuttle::sync::mpsc::Receiver<T>>,
        id: usize,
    }

    pub fn channel<T>() -> (Sender<T>, Receiver<T>)
    {
        let id = crate::sched::fresh_channel_id();
        let (s, r) = shuttle::sync::mpsc::channel();
        (Sender { inner: Some(s), id }, Receiver { inner: Some(r), id })
    }

    impl<T> Sender<T>
    {
        pub fn send(&self, t: T) -> Result<(), SendError<T>>
        {
            declare(OpDesc::Chan(self.id, "send"));
            let r = self.inner.as_ref().unwrap().send(t);
            if r.is_ok() { crate::sched::chan_sent(self.id); }
            r
        }
    }

    impl<T> Receiver<T>
    {
        pub fn recv(&self) -> Result<T, RecvError>
        {
            declare(OpDesc::Chan(self.id, "recv"));
            let r = self.inner.as_ref().unwrap().recv();
            if r.is_ok() { crate::sched::chan_received(self.id); }
            r
        }
    }

    // Dropping an endpoint is visible to the other side (a send on a channel without
    // receiver fails, a receive on an empty channel without sender fails), so it is an
    // operation of its own, preceded by a scheduling point.
    impl<T> Drop for Sender<T>
    {
        fn drop(&mut self)
        {
            if in_execution() && !std::thread::panicking()
            {
                declare(OpDesc::Chan(self.id, "drop-sender"));
                shuttle::thread::yield_now();
            }
            self.inner.take();
            crate::sched::chan_sender_dropped(self.id);
        }
    }

    impl<T> Drop for Receiver<T>
    {
        fn drop(&mut self)
        {
            if in_execution() && !std::thread::panicking()
            {
                declare(OpDesc::Chan(self.id, "drop-receiver"));
                shuttle::thread::yield_now();
            }
            self.inner.take();
        }
    }
}
