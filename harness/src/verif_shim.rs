//! The target of the one hook in /repo: with `--cfg ruler_verif`, `src/build.rs`
//! imports `thread` and `mpsc` from here instead of from `std`.  Both are
//! shuttle's drop-in replacements, so every spawn, join, send and receive of the
//! real `build()` / `clean()` becomes a scheduling point of our own scheduler
//! (`crate::sched`).
pub use shuttle::thread;
pub mod mpsc
{
    pub use shuttle::sync::mpsc::*;
}
