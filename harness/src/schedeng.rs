//! `sched` — all schedules of one build/clean with at most c preemptions (DESIGN 4.2).
//!
//! A case = rules + a pre-history (run under the serial schedule) + the operation
//! under test.  Every execution runs the operation on a deep clone of the prepared
//! state with MemSystem's scheduling points on.  Exploration is stateless: a work
//! item is a choice prefix; after running it to completion with default choices,
//! one child is generated for every later choice point and every alternative whose
//! preemption count stays within the bound.
use std::cell::RefCell;
use std::collections::{BTreeMap, BTreeSet};
use std::rc::Rc;
use std::sync::atomic::{AtomicBool, AtomicU64, Ordering};
use std::sync::{Arc, Condvar, Mutex};
use std::time::Instant;

use serde_json::{json, Value};

use crate::hist::{self, apply, check_build, check_clean, expected_verdict, BuildObs, CleanObs, Ctx, Finding, Op, Oracles, Scenario, State, Stats};
use crate::memsys::{Bytes, ClockModel, CmdMonitor, Fs};
use crate::model::*;
use crate::report::Violation;
use crate::sched::{self, Job, Outcome, Trace};
use crate::world::*;

#[derive(Clone)]
pub struct SchedCase
{
    pub name: String,
    pub sc: Scenario,
    pub pre: Vec<Op>,
    pub op: Op,
}

#[derive(Default)]
pub struct CaseResult
{
    /// complete executions
    pub schedules: u64,

    pub max_points: usize,
    pub max_steps: usize,
    /// outcome -> (count, example choices)
    pub outcomes: BTreeMap<String, (u64, Vec<u8>)>,
    pub end_states: BTreeSet<[u8; 16]>,
    pub findings: Vec<(Vec<u8>, Finding)>,
    pub failures: Vec<(Vec<u8>, String)>,
    pub harness_errors: Vec<String>,
    pub bound_completed: Option<usize>,
    pub per_bound: Vec<(usize, u64)>,
    /// distinct crash states (crash engine): key -> snapshot
    pub snaps: std::collections::HashMap<[u8; 16], crate::memsys::Snap>,
    pub snaps_seen: u64,
    pub cap_hit: bool,
    pub commands: u64,
}

/// Prepare the state the operation starts from: initial state + pre-history, serially.
pub fn prepare(case: &SchedCase) -> Result<State, String>
{
    let _w = crate::watch::item(|| (format!("the pre-history [{}] of case {} on the serial schedule", hist::ops_short(&case.pre), case.name),
        json!({"engine": "sched", "case": case.name, "what": "pre-history", "ops": case.pre})));
    let sc = case.sc.clone();
    let pre = case.pre.clone();
    let (r, outcome) = sched::run_once(vec![], move ||
    {
        let or = Oracles::default();
        let ctx = Ctx { sc: &sc, clock: ClockModel::Strict, or: &or };
        let mut st = hist::initial_state(&sc, false);
        let mut stats = Stats::default();
        let mut f = vec![];
        for op in &pre
        {
            st = apply(&ctx, &st, op, &mut stats, &mut f);
        }
        st
    });
    match (r, outcome.failure)
    {
        (Some(st), None) => Ok(st),
        (_, Some(f)) => Err(f),
        _ => Err("no state".to_string()),
    }
}

/// paths on which System calls are scheduling points: everything under the cache, and
/// every target that is also a source of another rule
pub fn shared_paths(rules: &RuleSet) -> Arc<BTreeSet<String>>
{
    let g = Graph::new(rules);
    let mut s = BTreeSet::new();
    for r in rules
    {
        for src in &r.sources
        {
            if g.producer.contains_key(src)
            {
                s.insert(src.clone());
            }
        }
    }
    Arc::new(s)
}

/// C03 monitor: at the instant a command starts, every declared source has its final content.
pub fn c03_monitor(rules: &RuleSet, fs: &Fs) -> CmdMonitor
{
    let ev = eval(rules, fs);
    let g = Graph::new(rules);
    let mut expect: BTreeMap<String, Vec<(String, Option<Bytes>)>> = BTreeMap::new();
    for (i, r) in rules.iter().enumerate()
    {
        let _ = i;
        let mut v = vec![];
        for s in r.sorted_sources()
        {
            if g.producer.contains_key(&s)
            {
                v.push((s.clone(), ev.values.get(&s).map(|x| x.0.clone())));
            }
            else
            {
                v.push((s.clone(), fs.read(&s)));
            }
        }
        expect.insert(r.script_text(), v);
    }
    Arc::new(move |now: &Fs, script: &str|
    {
        let v = expect.get(script)?;
        for (path, want) in v
        {
            let got = now.read(path);
            match want
            {
                None => return Some(format!("command {:?} started although its source {} cannot be produced in this build", script, path)),
                Some(w) =>
                {
                    if got.as_ref() != Some(w)
                    {
                        return Some(format!("command {:?} started while source {} holds {:?} instead of its final content {:?}",
                            script, path, got.as_ref().map(show), show(w)));
                    }
                },
            }
        }
        None
    })
}

struct ExecResult
{
    snaps: Vec<crate::memsys::Snap>,
    outcome_key: String,
    end_key: [u8; 16],
    findings: Vec<Finding>,
    harness_errors: Vec<String>,
    commands: u64,
}

struct Queue
{
    stack: Vec<Vec<u8>>,
    /// DPOR: prefixes already scheduled (the same backtrack point is found by many executions)
    known: std::collections::HashSet<Vec<u8>>,
    inflight: usize,
}

pub struct ExploreCfg
{
    /// take a file-system snapshot after every mutation (crash engine)
    pub snapshots: bool,
    /// dynamic partial-order reduction (unbounded) instead of plain enumeration
    pub por: bool,
    /// preemption bound (None = unbounded)
    pub bound: Option<usize>,
    pub threads: usize,
    pub deadline: Instant,
    pub max_schedules: u64,
    pub oracles: Oracles,
    pub c03: bool,
    pub c04_history: bool,
}

fn run_case_op(case: &SchedCase, prep: &State, rc: &RunCfg, or: &Oracles, c04_history: bool) -> ExecResult
{
    let rules = &case.sc.variants[prep.variant];
    let mut findings = vec![];
    let mut stats = Stats::default();
    let mut harness_errors = vec![];
    let rr = match &case.op
    {
        Op::Build { goal } =>
        {
            let rr = run_build(&prep.fs, rc, goal);
            let empty = BTreeMap::new();
            let obs = BuildObs { sc: &case.sc, rules, pre: &prep.fs, goal, rr: &rr, ghost: &empty };
            check_build(&obs, or, &mut stats, &mut findings);
            if c04_history
            {
                check_failed_not_recorded(rules, &prep.fs, goal, &rr, &mut findings);
            }
            rr
        },
        Op::Clean { goal } =>
        {
            let rr = run_clean(&prep.fs, rc, goal);
            check_clean(&CleanObs { sc: &case.sc, rules, pre: &prep.fs, goal, rr: &rr }, or, &mut stats, &mut findings);
            rr
        },
        other => panic!("sched case op must be build or clean, got {:?}", other),
    };
    for v in &rr.log.monitor_violations
    {
        findings.push(Finding { property: "C03", what: "a command started before one of its sources was final".into(), detail: v.clone() });
    }
    if let Verdict::Other(s) = &rr.verdict
    {
        if s.contains("SenderError") || s.contains("ReceiverError") || s.contains("Weird")
        {
            findings.push(Finding { property: "C05", what: format!("internal channel/join error returned: {}", crate::cli::first_line(s)), detail: s.clone() });
        }
    }
    // private-path discipline (soundness of not yielding on private paths)
    for (p, (mutated, tasks)) in &rr.log.access
    {
        let workers: Vec<&usize> = tasks.iter().filter(|t| **t != 0 && **t != crate::memsys::NO_TASK).collect();
        if *mutated && workers.len() > 1
        {
            harness_errors.push(format!("path {} is treated as private but was touched by tasks {:?}", p, workers));
        }
    }
    let outcome_key = format!("{:?} | {:?}", rr.verdict, workspace_view(&rr.fs));
    let mut rr = rr;
    let snaps = std::mem::take(&mut rr.log.snaps);
    ExecResult { snaps, outcome_key, end_key: canon_key(&rr.fs, &[]), findings, harness_errors, commands: rr.log.cmds.len() as u64 }
}

/// C04: nothing is recorded for a failed execution
fn check_failed_not_recorded(rules: &RuleSet, pre: &Fs, goal: &Option<String>, rr: &RunResult, out: &mut Vec<Finding>)
{
    let (_v, scope, ev) = match expected_verdict(rules, pre, goal) { Some(x) => x, None => return };
    let post_hist = decode_history(&rr.fs);
    let pre_hist = decode_history(pre);
    for r in &scope
    {
        match &ev.status[*r]
        {
            RuleStatus::CommandErrored | RuleStatus::NotGenerated(_) | RuleStatus::Cancelled =>
            {
                let rule = &rules[*r];
                let ticket = crate::rule::Rule::new(rule.targets.clone(), rule.sources.clone(), rule.command_lines()).get_ticket().human_readable();
                let before = match pre_hist.get(&ticket) { Some(Some(m)) => m.len(), _ => 0 };
                let after = match post_hist.get(&ticket) { Some(Some(m)) => m.len(), Some(None) => usize::MAX, None => 0 };
                if after > before
                {
                    out.push(Finding { property: "C04", what: format!("something was recorded for failed or cancelled rule {:?}", rule.targets),
                        detail: format!("history entries {} -> {}", before, after) });
                }
            },
            RuleStatus::Ok => {},
        }
    }
}

/// Explore all schedules of `case` with at most `cfg.bound` preemptions.
pub fn explore(case: &SchedCase, prep: &State, cfg: &ExploreCfg) -> CaseResult
{
    let rules = case.sc.variants[prep.variant].clone();
    let monitor = if cfg.c03 { Some(c03_monitor(&rules, &prep.fs)) } else { None };
    let rc = RunCfg
    {
        clock: ClockModel::Strict,
        yields: true,
        shared: Arc::new(BTreeSet::new()),
        snapshots: cfg.snapshots,
        track_access: false,
        monitor,
        // early-return cases (damaged state files): only termination is judged, the caller's
        // view of the workspace is not compared, so the observation need not be ordered
        observe: !case.name.starts_with("damaged-"),
    };
    let por = cfg.por;
    let queue = Arc::new((Mutex::new(Queue { stack: vec![vec![]], known: Default::default(), inflight: 0 }), Condvar::new()));
    let result = Arc::new(Mutex::new(CaseResult::default()));
    let stop = Arc::new(AtomicBool::new(false));
    let count = Arc::new(AtomicU64::new(0));
    let mut handles = vec![];
    for _ in 0..cfg.threads.max(1)
    {
        let queue = queue.clone();
        let result = result.clone();
        let stop = stop.clone();
        let count = count.clone();
        let case = case.clone();
        let prep = prep.clone();
        let rc = rc.clone();
        let or = cfg.oracles.clone();
        let bound = cfg.bound;
        let deadline = cfg.deadline;
        let max_schedules = cfg.max_schedules;
        let c04h = cfg.c04_history;
        handles.push(std::thread::Builder::new().stack_size(16 << 20).spawn(move ||
        {
            let case = Arc::new(case);
            let prep = Arc::new(prep);
            let slot: Rc<RefCell<Option<ExecResult>>> = Rc::new(RefCell::new(None));
            let mut local = CaseResult::default();
            let local_cell: Rc<RefCell<CaseResult>> = Rc::new(RefCell::new(CaseResult::default()));
            let inflight_here = Rc::new(RefCell::new(false));
            {
                let slot = slot.clone();
                let local_cell = local_cell.clone();
                let queue = queue.clone();
                let inflight_here = inflight_here.clone();
                sched::pump(move |prev: Option<Outcome>|
                {
                    if let Some(o) = prev
                    {
                        let mut loc = local_cell.borrow_mut();
                        loc.schedules += 1;
                        loc.max_points = loc.max_points.max(o.trace.choices.len());
                        loc.max_steps = loc.max_steps.max(o.trace.steps);
                        let res = slot.borrow_mut().take();
                        let children;
                        match (&o.failure, res)
                        {
                            (None, Some(res)) =>
                            {
                                let e = loc.outcomes.entry(res.outcome_key).or_insert((0, o.trace.choices.clone()));
                                e.0 += 1;
                                loc.end_states.insert(res.end_key);
                                loc.commands += res.commands;
                                for sn in res.snaps
                                {
                                    loc.snaps_seen += 1;
                                    let mut extra = vec![sn.in_cmd as u8, sn.torn.is_some() as u8];
                                    extra.extend_from_slice(&crate::hist::order_signature(&sn.fs));
                                    let k = canon_key(&sn.fs, &extra);
                                    loc.snaps.entry(k).or_insert(sn);
                                }
                                for f in res.findings
                                {
                                    if loc.findings.len() < 200 { loc.findings.push((o.trace.choices.clone(), f)); }
                                }
                                loc.harness_errors.extend(res.harness_errors);
                            },
                            (Some(msg), _) =>
                            {
                                if msg.contains(sched::DIVERGENCE)
                                {
                                    loc.harness_errors.push(msg.clone());
                                }
                                else if loc.failures.len() < 200
                                {
                                    loc.failures.push((o.trace.choices.clone(), msg.clone()));
                                }
                                let e = loc.outcomes.entry(format!("FAILED: {}", crate::cli::first_line(msg))).or_insert((0, o.trace.choices.clone()));
                                e.0 += 1;
                            },
                            (None, None) => loc.harness_errors.push("execution finished without a result".to_string()),
                        }
                        // children: deviate at every later choice point (also after a failure: the
                        // points that were reached are still valid branching points)
                        let start = PREFIX_LEN.with(|p| *p.borrow());
                        children = if por { sched::children_dpor(&o.trace) } else { sched::children_plain(&o.trace, start, bound) };
                        let (m, cv) = &*queue;
                        let mut q = m.lock().unwrap();
                        if por
                        {
                            for c in children
                            {
                                if q.known.insert(c.clone()) { q.stack.push(c); }
                            }
                        }
                        else
                        {
                            q.stack.extend(children);
                        }
                        q.inflight -= 1;
                        *inflight_here.borrow_mut() = false;
                        cv.notify_all();
                    }
                    // next work item
                    let prefix =
                    {
                        let (m, cv) = &*queue;
                        let mut q = m.lock().unwrap();
                        loop
                        {
                            if stop.load(Ordering::SeqCst)
                            {
                                return None;
                            }
                            if Instant::now() >= deadline || count.load(Ordering::SeqCst) >= max_schedules
                            {
                                stop.store(true, Ordering::SeqCst);
                                cv.notify_all();
                                return None;
                            }
                            if let Some(p) = q.stack.pop()
                            {
                                q.inflight += 1;
                                break p;
                            }
                            if q.inflight == 0
                            {
                                cv.notify_all();
                                return None;
                            }
                            let (g, _t) = cv.wait_timeout(q, std::time::Duration::from_millis(50)).unwrap();
                            q = g;
                        }
                    };
                    count.fetch_add(1, Ordering::SeqCst);
                    *inflight_here.borrow_mut() = true;
                    PREFIX_LEN.with(|p| *p.borrow_mut() = prefix.len());
                    let case = case.clone();
                    let prep = prep.clone();
                    let rc = rc.clone();
                    let or = or.clone();
                    let slot = slot.clone();
                    let wprefix = prefix.clone();
                    Some(Job
                    {
                        prefix,
                        full: por,
                        body: Box::new(move ||
                        {
                            let _w = crate::watch::item(|| (format!("case {} under the schedule that follows the choices {:?} and then never preempts", case.name, wprefix),
                                json!({"engine": if case.name == "realfs-step" { "unreplayable" } else { "sched" }, "case": case.name, "choices": wprefix, "what": "does not return", "c03": false})));
                            let res = run_case_op(&case, &prep, &rc, &or, c04h);
                            *slot.borrow_mut() = Some(res);
                        }),
                    })
                });
            }
            std::mem::swap(&mut local, &mut *local_cell.borrow_mut());
            let mut r = result.lock().unwrap();
            r.schedules += local.schedules;

            r.max_points = r.max_points.max(local.max_points);
            r.max_steps = r.max_steps.max(local.max_steps);
            r.commands += local.commands;
            for (k, (n, ex)) in local.outcomes
            {
                let e = r.outcomes.entry(k).or_insert((0, ex));
                e.0 += n;
            }
            r.end_states.extend(local.end_states);
            r.snaps_seen += local.snaps_seen;
            for (k, v) in local.snaps { r.snaps.entry(k).or_insert(v); }
            r.findings.extend(local.findings);
            r.failures.extend(local.failures);
            r.harness_errors.extend(local.harness_errors);
        }).unwrap());
    }
    for h in handles
    {
        if h.join().is_err()
        {
            result.lock().unwrap().harness_errors.push("explorer worker panicked".to_string());
        }
    }
    let mut r = std::mem::take(&mut *result.lock().unwrap());
    r.cap_hit = stop.load(Ordering::SeqCst);
    r
}

thread_local! {
    static PREFIX_LEN: RefCell<usize> = RefCell::new(0);
}

/// Run one schedule (choice list) of a case, for replay.
pub fn run_schedule(case: &SchedCase, prep: &State, or: &Oracles, c03: bool, choices: Vec<u8>) -> (Option<(String, Vec<Finding>)>, Outcome)
{
    let rules = case.sc.variants[prep.variant].clone();
    let monitor = if c03 { Some(c03_monitor(&rules, &prep.fs)) } else { None };
    let rc = RunCfg { clock: ClockModel::Strict, yields: true, shared: Arc::new(BTreeSet::new()), snapshots: false, track_access: false, monitor, observe: !case.name.starts_with("damaged-") };
    let case = case.clone();
    let prep = prep.clone();
    let or = or.clone();
    sched::run_once(choices, move ||
    {
        let res = run_case_op(&case, &prep, &rc, &or, true);
        (res.outcome_key, res.findings)
    })
}

// ---------------------------------------------------------------------------
// Case corpus

fn b(goal: Option<&str>) -> Op { Op::Build { goal: goal.map(|s| s.to_string()) } }
fn c(goal: Option<&str>) -> Op { Op::Clean { goal: goal.map(|s| s.to_string()) } }
fn e(path: &str, val: usize) -> Op { Op::Edit { path: path.to_string(), val } }

fn mk(name: &str, sc: &Scenario, pre: Vec<Op>, op: Op) -> SchedCase
{
    SchedCase { name: name.to_string(), sc: sc.clone(), pre, op }
}

fn xy() -> Vec<Bytes> { vec![crate::memsys::bytes("X"), crate::memsys::bytes("Y")] }

fn scn(name: &str, rules: RuleSet, leaves: &[&str]) -> Scenario
{
    Scenario
    {
        name: name.to_string(),
        variants: vec![rules],
        edits: leaves.iter().map(|l| (l.to_string(), xy())).collect(),
        goals: vec![None],
        tamper: vec![],
        ops: hist::OpKinds::basic(),
        nondeterministic: false,
        flat_variants: vec![],
    }
}

pub fn sc_single() -> Scenario { scn("single", vec![cat_rule("t", &["s"])], &["s"]) }
pub fn sc_chain2() -> Scenario { scn("chain2", vec![cat_rule("m", &["s"]), cat_rule("t", &["m", "u"])], &["s", "u"]) }
pub fn sc_chain3() -> Scenario { scn("chain3", vec![cat_rule("a", &["s"]), cat_rule("b", &["a"]), cat_rule("c", &["b", "u"])], &["s", "u"]) }
pub fn sc_diamond() -> Scenario { scn("diamond", vec![cat_rule("top", &["l", "r"]), cat_rule("l", &["s"]), cat_rule("r", &["s", "u"])], &["s", "u"]) }
pub fn sc_fanin() -> Scenario { scn("fanin", vec![cat_rule("t", &["s", "u"])], &["s", "u"]) }
pub fn sc_fanout() -> Scenario { scn("fanout", vec![cat_rule("m", &["s"]), cat_rule("d1", &["m"]), cat_rule("d2", &["m", "u"])], &["s", "u"]) }
pub fn sc_multi() -> Scenario
{
    scn("multi", vec![multi_rule(&["t1", "t2"], &["s1", "s2"], &[&["s1"], &["s2"]]), cat_rule("c1", &["t1"]), cat_rule("c2", &["t2"])], &["s1", "s2"])
}
pub fn sc_two_comp() -> Scenario { scn("twocomp", vec![cat_rule("a", &["s"]), cat_rule("b", &["a"]), cat_rule("p", &["u"])], &["s", "u"]) }
pub fn sc_twins() -> Scenario { scn("twins", vec![cat_rule("a", &["s"]), cat_rule("b", &["s"])], &["s"]) }
pub fn sc_twins_plus() -> Scenario
{
    let mut s = scn("twinsplus", vec![cat_rule("a", &["s"]), cat_rule("b", &["s"]), cat_rule("k", &["u"])], &["s", "u"]);
    s.goals = vec![None, Some("a".to_string()), Some("b".to_string())];
    s
}
pub fn sc_triplets() -> Scenario { scn("triplets", vec![cat_rule("a", &["s"]), cat_rule("b", &["s"]), cat_rule("c", &["s"])], &["s"]) }
pub fn sc_twins_multi() -> Scenario
{
    // a two-target rule whose targets are byte-identical to each other and to an independent rule's target
    scn("twinsmulti", vec![multi_rule(&["a1", "a2"], &["s"], &[&["s"], &["s"]]), cat_rule("b", &["s"]), cat_rule("d", &["a2", "b"])], &["s"])
}
pub fn sc_widefanin() -> Scenario
{
    scn("widefanin", vec![cat_rule("p", &["s"]), cat_rule("q", &["u"]), cat_rule("r", &["s", "u"]), cat_rule("top", &["p", "q", "r"])], &["s", "u"])
}
pub fn sc_five() -> Scenario
{
    scn("five", vec![cat_rule("app", &["core", "util"]), cat_rule("core", &["gen"]), cat_rule("gen", &["lex"]), cat_rule("lex", &["util"]), cat_rule("util", &["s"])], &["s"])
}
pub fn sc_twins3() -> Scenario { scn("twins3", vec![cat_rule("a", &["s"]), cat_rule("b", &["s"]), cat_rule("c", &["a", "b"])], &["s"]) }

/// diamond + independent sibling, with rule `i` replaced by a failing / non-producing one
pub fn sc_fail(kind: &str, which: &[usize]) -> Scenario
{
    let mut rules = vec![cat_rule("top", &["l", "r"]), cat_rule("l", &["s"]), cat_rule("r", &["s", "u"]), cat_rule("g", &["u"])];
    for i in which
    {
        let t = rules[*i].targets[0].clone();
        let srcs: Vec<&str> = rules[*i].sources.iter().map(|x| x.as_str()).collect();
        rules[*i] = if kind == "noout" { noout_rule(&t, &srcs) } else { fail_rule(&t, &srcs) };
    }
    let mut s = scn(&format!("fail-{}-{:?}", kind, which), rules, &["s", "u"]);
    s.ops.rm_leaf = true;
    s
}

pub fn success_cases(tier: &str) -> Vec<SchedCase>
{
    let mut v = vec![];
    let single = sc_single();
    let chain2 = sc_chain2();
    let chain3 = sc_chain3();
    let diamond = sc_diamond();
    let fanin = sc_fanin();
    let fanout = sc_fanout();
    let multi = sc_multi();
    let two = sc_two_comp();
    let twins = sc_twins();
    let twins3 = sc_twins3();
    v.push(mk("single/fresh/build", &single, vec![], b(None)));
    v.push(mk("chain2/fresh/build", &chain2, vec![], b(None)));
    v.push(mk("chain2/built+edit/build", &chain2, vec![b(None), e("s", 1)], b(None)));
    v.push(mk("chain2/cleaned/build", &chain2, vec![b(None), c(None)], b(None)));
    v.push(mk("chain2/built/clean", &chain2, vec![b(None)], c(None)));
    v.push(mk("diamond/fresh/build", &diamond, vec![], b(None)));
    v.push(mk("diamond/built+edit/build", &diamond, vec![b(None), e("s", 1)], b(None)));
    v.push(mk("diamond/reverted/build", &diamond, vec![b(None), e("s", 1), b(None), e("s", 0)], b(None)));
    v.push(mk("diamond/cleaned/build", &diamond, vec![b(None), c(None)], b(None)));
    v.push(mk("diamond/built/clean", &diamond, vec![b(None)], c(None)));
    v.push(mk("fanout/fresh/build", &fanout, vec![], b(None)));
    v.push(mk("fanout/cleaned/build", &fanout, vec![b(None), c(None)], b(None)));
    v.push(mk("multi/fresh/build", &multi, vec![], b(None)));
    v.push(mk("multi/built+edit2/build", &multi, vec![b(None), e("s2", 1)], b(None)));
    v.push(mk("multi/cleaned/build", &multi, vec![b(None), c(None)], b(None)));
    v.push(mk("multi/goal-c2/build", &multi, vec![], b(Some("c2"))));
    v.push(mk("twins/fresh/build", &twins, vec![], b(None)));
    v.push(mk("twins/cleaned/build", &twins, vec![b(None), c(None)], b(None)));
    v.push(mk("twins/reverted/build", &twins, vec![b(None), e("s", 1), b(None), e("s", 0)], b(None)));
    v.push(mk("twins/built/clean", &twins, vec![b(None)], c(None)));
    v.push(mk("twins3/cleaned/build", &twins3, vec![b(None), c(None)], b(None)));
    v.push(mk("twocomp/fresh/build", &two, vec![], b(None)));
    v.push(mk("twocomp/goal-b/build", &two, vec![b(None), e("s", 1)], b(Some("b"))));
    v.push(mk("fanin/fresh/build", &fanin, vec![], b(None)));
    // targets whose parsed order is not their string order; p must follow gen/data, d is forced by s3
    let bundle = crate::scen::s10_bundle();
    v.push(mk("bundle/built+edit-s1-s3/build", &bundle, vec![b(None), e("s1", 1), e("s3", 1)], b(None)));
    v.push(mk("bundle/built+edit-s2/build", &bundle, vec![b(None), e("s2", 1)], b(None)));
    // two rules wait for one cache entry while a third rule puts an identical file into the cache
    let tp = sc_twins_plus();
    v.push(mk("twins+backup/cleaned-a-b+edit-u/build", &tp, vec![b(None), c(Some("a")), c(Some("b")), e("u", 1)], b(None)));
    v.push(mk("chain3/built+edit/build", &chain3, vec![b(None), e("s", 1)], b(None)));
    // the producer only has to recover its target while the dependent really has to run
    v.push(mk("chain2/reverted+edit-u/build", &chain2, vec![b(None), e("s", 1), b(None), e("s", 0), e("u", 1)], b(None)));
    v.push(mk("chain2/cleaned-m+edit-u/build", &{ let mut c2 = chain2.clone(); c2.goals = vec![None, Some("m".to_string())]; c2 }, vec![b(None), c(Some("m")), e("u", 1)], b(None)));
    v.push(mk("diamond/reverted+edit-u/build", &diamond, vec![b(None), e("s", 1), b(None), e("s", 0), e("u", 1)], b(None)));
    let tri = sc_triplets();
    v.push(mk("triplets/cleaned/build", &tri, vec![b(None), c(None)], b(None)));
    v.push(mk("triplets/built/clean", &tri, vec![b(None)], c(None)));
    let tm = sc_twins_multi();
    v.push(mk("twinsmulti/cleaned/build", &tm, vec![b(None), c(None)], b(None)));
    v.push(mk("twinsmulti/reverted/build", &tm, vec![b(None), e("s", 1), b(None), e("s", 0)], b(None)));
    let wf = sc_widefanin();
    v.push(mk("widefanin/built+edit/build", &wf, vec![b(None), e("u", 1)], b(None)));
    v.push(mk("twins/partly-cleaned/build", &twins, vec![b(None), c(Some("a"))], b(None)));
    // one producer, one consumer, two edges: both targets of a rule feed one dependent; a source listed twice
    let bt = scn("bothtargets", vec![multi_rule(&["t1", "t2"], &["s1", "s2"], &[&["s1"], &["s2"]]), cat_rule("d", &["t1", "t2"])], &["s1", "s2"]);
    v.push(mk("bothtargets/fresh/build", &bt, vec![], b(None)));
    v.push(mk("bothtargets/built+edit2/build", &bt, vec![b(None), e("s2", 1)], b(None)));
    let mut ds = scn("dupsource", vec![cat_rule("dir/m", &["s"]), cat_rule("u2", &["u"]),
        RuleSpec { targets: sv(&["t"]), sources: sv(&["dir/m", "dir/m", "u2"]), lines: vec![Line::Cat { inputs: sv(&["dir/m", "dir/m", "u2"]), out: s("t") }] }], &["s", "u"]);
    ds.edits.push((s("dir/.keep"), vec![crate::memsys::bytes("")]));
    v.push(mk("dupsource/fresh/build", &ds, vec![], b(None)));
    v.push(mk("dupsource/built+edit/build", &ds, vec![b(None), e("s", 1)], b(None)));
    if tier == "thorough"
    {
        v.push(mk("chain3/fresh/build", &chain3, vec![], b(None)));
        v.push(mk("chain3/cleaned/build", &chain3, vec![b(None), c(None)], b(None)));
        v.push(mk("five/fresh/build", &sc_five(), vec![], b(None)));
        v.push(mk("five/cleaned/build", &sc_five(), vec![b(None), c(None)], b(None)));
        v.push(mk("widefanin/cleaned/build", &sc_widefanin(), vec![b(None), c(None)], b(None)));
        v.push(mk("triplets/reverted/build", &sc_triplets(), vec![b(None), e("s", 1), b(None), e("s", 0)], b(None)));
        v.push(mk("twins3/reverted/build", &twins3, vec![b(None), e("s", 1), b(None), e("s", 0)], b(None)));
        v.push(mk("twins3/fresh/build", &twins3, vec![], b(None)));
        v.push(mk("diamond/tampered/build", &diamond, vec![b(None), Op::Tamper { path: "l".into() }], b(None)));
        v.push(mk("multi/tampered/build", &multi, vec![b(None), Op::Tamper { path: "t2".into() }], b(None)));
        v.push(mk("multi/built/clean", &multi, vec![b(None)], c(None)));
        v.push(mk("fanout/reverted/build", &fanout, vec![b(None), e("s", 1), b(None), e("s", 0)], b(None)));
    }
    v
}

pub fn failure_cases(tier: &str) -> Vec<SchedCase>
{
    let mut v = vec![];
    // every single rule failing
    for i in 0..4
    {
        let sc = sc_fail("false", &[i]);
        v.push(mk(&format!("fail/rule{}/fresh/build", i), &sc, vec![], b(None)));
    }
    // both middles
    let both = sc_fail("false", &[1, 2]);
    v.push(mk("fail/both-middles/fresh/build", &both, vec![], b(None)));
    // non-producing rule
    let no = sc_fail("noout", &[1]);
    v.push(mk("fail/noout-l/fresh/build", &no, vec![], b(None)));
    // a command of several lines whose first line fails while the later ones succeed
    let ml = crate::scen::s12_multiline_failure();
    v.push(mk("fail/multiline/fresh/build", &ml, vec![], b(None)));
    // a failing rule next to two rules racing for one cache entry
    let tf = scn("twinsfail", vec![cat_rule("a", &["s"]), cat_rule("b", &["s"]), fail_rule("f", &["s"]), cat_rule("df", &["f", "a"])], &["s"]);
    v.push(mk("fail/twins+failing-sibling/fresh/build", &tf, vec![], b(None)));
    // missing leaves in the healthy graph
    let healthy = sc_fail("false", &[]);
    v.push(mk("missing/s/fresh/build", &healthy, vec![Op::RmLeaf { path: "s".into() }], b(None)));
    v.push(mk("missing/u/fresh/build", &healthy, vec![Op::RmLeaf { path: "u".into() }], b(None)));
    v.push(mk("missing/s+u/fresh/build", &healthy, vec![Op::RmLeaf { path: "s".into() }, Op::RmLeaf { path: "u".into() }], b(None)));
    // a rule with three sources of which the first two are cancelled while the third is still at work
    let f33 = scn("fanin3fail", vec![cat_rule("top", &["a", "b", "c"]), fail_rule("a", &["s"]), fail_rule("b", &["s"]), cat_rule("c", &["u"])], &["s", "u"]);
    v.push(mk("fail/two-of-three-sources/fresh/build", &f33, vec![], b(None)));
    let mut l3 = scn("leaves3", vec![cat_rule("top", &["x", "y", "z"]), cat_rule("d", &["top"])], &["x", "y", "z"]);
    l3.ops.rm_leaf = true;
    v.push(mk("missing/two-of-three-leaves/fresh/build", &l3, vec![Op::RmLeaf { path: "x".into() }, Op::RmLeaf { path: "y".into() }], b(None)));
    // failing rule after a successful build of the healthy graph is covered by hist S8 (rules switch)
    v.push(mk("missing/s/built/build", &healthy, vec![b(None), Op::RmLeaf { path: "s".into() }], b(None)));
    if tier == "thorough"
    {
        let no2 = sc_fail("noout", &[0]);
        v.push(mk("fail/noout-top/fresh/build", &no2, vec![], b(None)));
        let f3 = sc_fail("false", &[1, 3]);
        v.push(mk("fail/l+g/fresh/build", &f3, vec![], b(None)));
        v.push(mk("fail/rule1/goal-top/build", &sc_fail("false", &[1]), vec![], b(Some("top"))));
        v.push(mk("fail/rule1/goal-g/build", &sc_fail("false", &[1]), vec![], b(Some("g"))));
        v.push(mk("missing/u/built/clean", &healthy, vec![b(None), Op::RmLeaf { path: "u".into() }], c(None)));
    }
    v
}

/// damaged state files: build must still return (an error value), never hang or panic
pub fn damage_cases(_tier: &str) -> Vec<SchedCase>
{
    let mut v = vec![];
    let chain3 = sc_chain3();
    let diamond = sc_diamond();
    let multi = sc_multi();
    for (sc, label, targets) in [(&chain3, "chain3", vec!["a", "b", "c"]), (&diamond, "diamond", vec!["l", "r", "top"]), (&multi, "multi", vec!["t1", "c1", "c2"])]
    {
        for t in targets
        {
            v.push(mk(&format!("damaged-history/{}/{}/build", label, t), sc, vec![b(None), Op::CorruptHistory { target: t.to_string() }], b(None)));
        }
    }
    v.push(mk("damaged-table/diamond/build", &diamond, vec![b(None), Op::CorruptTable], b(None)));
    v.push(mk("damaged-table/diamond/clean", &diamond, vec![b(None), Op::CorruptTable], c(None)));
    v.push(mk("damaged-history/chain3/c/edit+build", &chain3, vec![b(None), e("s", 1), Op::CorruptHistory { target: "c".to_string() }], b(None)));
    v
}

pub fn case_by_name(name: &str) -> Option<SchedCase>
{
    let mut all = success_cases("thorough");
    all.extend(failure_cases("thorough"));
    all.extend(damage_cases("thorough"));
    all.into_iter().find(|c| c.name == name)
}

pub fn finding_signature(case: &SchedCase, f: &Finding) -> String
{
    format!("{}:sched:{}:{}", f.property, case.name, f.what)
}

pub fn to_violation(case: &SchedCase, choices: &[u8], f: &Finding, c03: bool) -> Violation
{
    Violation
    {
        property: f.property.to_string(),
        signature: finding_signature(case, f),
        summary: format!("{} [case {}, schedule {:?}]: {}", f.what, case.name, choices, f.detail),
        replay: json!({"engine": "sched", "case": case.name, "choices": choices, "what": f.what, "c03": c03}),
    }
}

pub fn outcomes_json(r: &CaseResult) -> Value
{
    json!(r.outcomes.iter().map(|(k, (n, ex))| json!({"outcome": k, "schedules": n, "example_choices": ex})).collect::<Vec<_>>())
}

pub fn debug_trace(case: &SchedCase, prep: &State)
{
    let rc = RunCfg { clock: ClockModel::Strict, yields: true, shared: Arc::new(BTreeSet::new()), snapshots: false, track_access: false, monitor: None, observe: true };
    let case2 = case.clone();
    let prep2 = prep.clone();
    struct D { job: Option<Job>, out: Option<Outcome> }
    impl sched::Driver for D
    {
        fn next_job(&mut self) -> Option<Job> { self.job.take() }
        fn done(&mut self, o: Outcome) { self.out = Some(o); }
    }
    let d = D { job: Some(Job { prefix: vec![], full: true, body: Box::new(move || { let _ = run_case_op(&case2, &prep2, &rc, &Oracles::default(), false); }) }), out: None };
    let d = sched::run_jobs(d);
    let o = d.out.unwrap();
    for (i, s) in o.trace.steps_full.iter().enumerate()
    {
        println!("{:3} task {} {:?} options {:?} choice {:?}", i, s.task, s.op, s.options, s.choice);
    }
    let ch = sched::children_dpor(&o.trace);
    println!("{} children", ch.len());
    for c in ch.iter().take(40) { println!("  {:?}", c); }
}
