//! Command line: `rvf check <ID> [--tier quick|thorough]`, `rvf replay <file>`.
use std::time::{Duration, Instant};

use serde_json::{json, Value};

use crate::hist::{self, HistCfg, Op, Oracles, Scenario};
use crate::memsys::ClockModel;
use crate::report::{self, Report, Violation};
use crate::scen;

pub fn threads() -> usize
{
    std::env::var("RVF_THREADS").ok().and_then(|s| s.parse().ok()).unwrap_or_else(||
        std::thread::available_parallelism().map(|n| n.get()).unwrap_or(4))
}

pub struct HistPlan
{
    pub scenario: Scenario,
    pub clock: ClockModel,
    pub depth: usize,
    pub paired: bool,
    pub c10: bool,
    pub secs: u64,
    pub max_states: usize,
}

fn plan(sc: Scenario, depth: usize) -> HistPlan
{
    HistPlan { scenario: sc, clock: ClockModel::Strict, depth, paired: false, c10: false, secs: 40, max_states: 3_000_000 }
}

/// Runs the plans for one property, fills the report.
pub fn run_hist_plans(rep: &mut Report, id: &str, plans: Vec<HistPlan>)
{
    let or = Oracles::only(id);
    let mut states = 0u64;
    let mut transitions = 0u64;
    let mut impl_runs = 0u64;
    let mut per = vec![];
    let mut exhaustive = true;
    let mut max_depth = 0;
    let mut obligations = 0u64;
    let mut nontrivial = 0u64;
    for p in plans
    {
        let cfg = HistCfg
        {
            scenario: p.scenario.clone(),
            clock: p.clock,
            oracles: or.clone(),
            depth: p.depth,
            paired: p.paired,
            use_ghost_in_key: id == "C02",
            max_states: p.max_states,
            deadline: Instant::now() + Duration::from_secs(p.secs),
            threads: threads(),
            c10_probes: p.c10,
        };
        let r = hist::run_hist(&cfg);
        states += r.states;
        transitions += r.stats.transitions;
        impl_runs += r.stats.builds + r.stats.cleans + r.stats.probes;
        obligations += r.stats.obligations;
        nontrivial += r.stats.nontrivial;
        exhaustive &= r.exhaustive_to_depth;
        max_depth = max_depth.max(r.depth_completed);
        let mut j = hist::stats_json(&r);
        j["scenario"] = json!(p.scenario.name);
        j["clock"] = json!(format!("{:?}", p.clock));
        j["depth_bound"] = json!(p.depth);
        j["states"] = json!(r.states);
        j["transitions"] = json!(r.stats.transitions);
        per.push(j);
        for path in r.sample_paths.iter().take(2)
        {
            rep.push_sample(json!({"scenario": p.scenario.name, "history": hist::ops_short(path)}));
        }
        // confirm and report findings: replay each distinct one twice without the explorer
        let mut seen_sigs = std::collections::BTreeSet::new();
        for (path, f) in r.findings.iter()
        {
            if f.property != id { continue; }
            let sig = hist::finding_signature(&p.scenario, p.clock, f);
            if !seen_sigs.insert(sig.clone()) { continue; }
            // shortest witness for this signature
            let best = r.findings.iter().filter(|(_, g)| g.property == id && hist::finding_signature(&p.scenario, p.clock, g) == sig)
                .min_by_key(|(pp, _)| pp.len()).unwrap();
            let (path, f) = (&best.0, &best.1);
            let mut ok = 0;
            for _ in 0..2
            {
                let (fs, _fail, _st) = hist::replay_history(&p.scenario, p.clock, &or, p.paired, false, path);
                if fs.iter().any(|(_, g)| hist::finding_signature(&p.scenario, p.clock, g) == sig) { ok += 1; }
            }
            if ok != 2
            {
                rep.machinery(format!("finding {:?} after [{}] did not reproduce on replay ({}/2)", sig, hist::ops_short(path), ok));
                continue;
            }
            rep.violation(hist::to_violation(&p.scenario, p.clock, p.paired, path, f));
        }
        for (path, msg) in r.failures.iter()
        {
            // panics / deadlocks inside ruler during a transition: a C05-class event; for other
            // properties it is reported as a violation of the property being checked only if
            // it reproduces, since the transition could not be judged
            let what = format!("ruler panicked or deadlocked: {}", first_line(msg));
            let v = Violation
            {
                property: id.to_string(),
                signature: format!("{}:hist:{}:{:?}:{}", id, p.scenario.name, p.clock, what),
                summary: format!("{} after [{}]", msg, hist::ops_short(path)),
                replay: json!({"engine": "hist", "scenario": p.scenario.name, "clock": format!("{:?}", p.clock), "paired": p.paired, "ops": path, "what": what}),
            };
            if msg.contains(crate::sched::DIVERGENCE)
            {
                rep.machinery(format!("schedule divergence: {}", msg));
            }
            else
            {
                rep.violation(v);
            }
        }
    }
    rep.add("states", states);
    rep.add("transitions", transitions);
    rep.add("traces_validated_against_impl", impl_runs);
    rep.add("obligations_checked", obligations);
    rep.add("nontrivial_obligations", nontrivial);
    rep.set("max_depth", json!(max_depth));
    rep.set("exhaustive", json!(exhaustive));
    rep.set("per_scenario", json!(per));
}

pub fn first_line(s: &str) -> String
{
    s.lines().next().unwrap_or("").chars().take(160).collect()
}

fn tiered(tier: &str, q: usize, t: usize) -> usize
{
    if tier == "thorough" { t } else { q }
}

fn check(id: &str, tier: &str) -> i32
{
    let mut rep = Report::new(id, tier);
    let thorough = tier == "thorough";
    let secs = if thorough { 240 } else { 25 };
    match id
    {
        "C01" =>
        {
            rep.assume("commands are deterministic functions of their declared sources (mini-shell cat); distinct writes carry distinct mtimes (strict clock)");
            let mut plans = vec![];
            for (sc, q, t) in vec![(scen::s1_chain(), 4, 6), (scen::s3_multi(), 4, 6), (scen::s2_diamond(), 3, 5), (scen::s4_twins(), 3, 5), (scen::s5_variants(), 4, 6), (scen::s8_failures(), 3, 5)]
            {
                let mut p = plan(sc, tiered(tier, q, t));
                p.secs = secs;
                plans.push(p);
            }
            run_hist_plans(&mut rep, id, plans);
        },
        _ =>
        {
            eprintln!("unknown or unimplemented property {}", id);
            return 2;
        },
    }
    rep.finish()
}

fn replay(path: &str) -> i32
{
    let v = report::read_replay(path);
    let prop = v["property"].as_str().unwrap_or("").to_string();
    let r = &v["replay"];
    match r["engine"].as_str().unwrap_or("")
    {
        "hist" =>
        {
            let sc = match scen::by_name(r["scenario"].as_str().unwrap_or(""))
            {
                Some(s) => s,
                None => { eprintln!("unknown scenario"); return 2; },
            };
            let clock = hist::clock_from_str(r["clock"].as_str().unwrap_or("Strict"));
            let paired = r["paired"].as_bool().unwrap_or(false);
            let ops: Vec<Op> = serde_json::from_value(r["ops"].clone()).unwrap_or_default();
            let or = Oracles::only(&prop);
            let (fs, fail, st) = hist::replay_history(&sc, clock, &or, paired, false, &ops);
            println!("replayed [{}]", hist::ops_short(&ops));
            println!("final workspace: {:?}", crate::world::workspace_view(&st.fs));
            if let Some(f) = fail
            {
                println!("execution failed: {}", f);
            }
            let mut hit = false;
            for (p, f) in fs
            {
                if f.property == prop
                {
                    hit = true;
                    println!("{} after [{}]: {} — {}", f.property, hist::ops_short(&p), f.what, f.detail);
                }
            }
            if hit
            {
                println!("VIOLATION property={} replay={}", prop, path);
                1
            }
            else
            {
                println!("no violation of {} on this trace", prop);
                0
            }
        },
        other =>
        {
            eprintln!("unknown replay engine {:?}", other);
            2
        },
    }
}

pub fn main() -> i32
{
    let args: Vec<String> = std::env::args().collect();
    if args.len() < 2
    {
        eprintln!("usage: rvf check <ID> [--tier quick|thorough] | rvf replay <file>");
        return 2;
    }
    let mut tier = std::env::var("VERIF_TIER").unwrap_or_else(|_| "quick".to_string());
    let mut i = 2;
    let mut pos = vec![];
    while i < args.len()
    {
        if args[i] == "--tier" && i + 1 < args.len()
        {
            tier = args[i + 1].clone();
            i += 2;
        }
        else
        {
            pos.push(args[i].clone());
            i += 1;
        }
    }
    if tier != "thorough" { tier = "quick".to_string(); }
    match args[1].as_str()
    {
        "check" =>
        {
            if pos.is_empty() { eprintln!("check needs a property id"); return 2; }
            check(&pos[0], &tier)
        },
        "replay" =>
        {
            if pos.is_empty() { eprintln!("replay needs a file"); return 2; }
            replay(&pos[0])
        },
        other =>
        {
            eprintln!("unknown command {}", other);
            2
        },
    }
}
