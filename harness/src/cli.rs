//! Command line: `rvf check <ID> [--tier quick|thorough]`, `rvf replay <file>`.
use std::time::{Duration, Instant};

use serde_json::{json, Value};

use crate::hist::{self, HistCfg, Op, Oracles, Scenario};
use crate::memsys::ClockModel;
use crate::report::{self, Report, Violation};
use crate::scen;
use crate::schedeng::{self, ExploreCfg, SchedCase};

pub fn threads() -> usize
{
    std::env::var("RVF_THREADS").ok().and_then(|s| s.parse().ok()).unwrap_or_else(||
        std::thread::available_parallelism().map(|n| n.get()).unwrap_or(4))
}

pub struct HistPlan
{
    pub scenario: Scenario,
    pub clock: ClockModel,
    pub depth: usize,
    pub paired: bool,
    pub c10: bool,
    pub secs: u64,
    pub max_states: usize,
    pub ordered: bool,
}

fn plan(sc: Scenario, depth: usize) -> HistPlan
{
    HistPlan { scenario: sc, clock: ClockModel::Strict, depth, paired: false, c10: false, secs: 40, max_states: 3_000_000, ordered: true }
}

/// The same scenarios under the coarse clock (one tick per user action or ruler invocation: everything
/// one build writes shares a modification time).
fn coarse_plans(tier: &str, secs: u64, list: Vec<(Scenario, usize, usize)>) -> Vec<HistPlan>
{
    list.into_iter().map(|(sc, q, t)| { let mut p = plan(sc, tiered(tier, q, t)); p.clock = ClockModel::Coarse; p.secs = secs; p }).collect()
}

/// Runs the plans for one property, fills the report.
pub fn run_hist_plans(rep: &mut Report, id: &str, plans: Vec<HistPlan>)
{
    let or = Oracles::only(id);
    let mut states = 0u64;
    let mut transitions = 0u64;
    let mut impl_runs = 0u64;
    let mut per = vec![];
    let mut exhaustive = true;
    let mut max_depth = 0;
    let mut obligations = 0u64;
    let mut nontrivial = 0u64;
    let mut repeat_checked = false;
    for p in plans
    {
        // debugging aids: RVF_ONLY=<substring of a scenario name>, RVF_ORDERED=1 forces order-sensitive keys
        if let Ok(only) = std::env::var("RVF_ONLY") { if !p.scenario.name.contains(&only) { continue; } }
        let mut p = p;
        if std::env::var("RVF_ORDERED").is_ok() { p.ordered = true; }
        let cfg = HistCfg
        {
            scenario: p.scenario.clone(),
            clock: p.clock,
            oracles: or.clone(),
            depth: p.depth,
            paired: p.paired,
            use_ghost_in_key: id == "C02",
            max_states: p.max_states,
            deadline: Instant::now() + Duration::from_secs(p.secs),
            threads: threads(),
            c10_probes: p.c10,
            ordered_key: p.ordered,
        };
        let r = hist::run_hist(&cfg);
        // determinism self-check: the first plan of a property is searched twice (the second time on a
        // different number of worker threads); states and transitions per level must be identical
        if !repeat_checked && r.exhaustive_to_depth && r.states < 200_000
        {
            repeat_checked = true;
            let mut cfg2 = HistCfg { scenario: p.scenario.clone(), clock: p.clock, oracles: or.clone(), depth: p.depth, paired: p.paired, use_ghost_in_key: id == "C02",
                max_states: p.max_states, deadline: Instant::now() + Duration::from_secs(p.secs), threads: (threads() / 2).max(1), c10_probes: false, ordered_key: p.ordered };
            if p.c10 { cfg2.c10_probes = true; }
            let r2 = hist::run_hist(&cfg2);
            let same = r2.exhaustive_to_depth && r2.states == r.states && r2.levels == r.levels && r2.stats.transitions == r.stats.transitions;
            rep.set("repeat_run_identical", json!({"scenario": p.scenario.name, "states": [r.states, r2.states], "transitions": [r.stats.transitions, r2.stats.transitions], "identical": same}));
            if !same && r2.exhaustive_to_depth
            {
                rep.machinery(format!("the search of {} is not deterministic: {} vs {} states, {} vs {} transitions", p.scenario.name, r.states, r2.states, r.stats.transitions, r2.stats.transitions));
            }
        }
        states += r.states;
        transitions += r.stats.transitions;
        impl_runs += r.stats.builds + r.stats.cleans + r.stats.probes;
        obligations += r.stats.obligations;
        nontrivial += r.stats.nontrivial;
        exhaustive &= r.exhaustive_to_depth;
        max_depth = max_depth.max(r.depth_completed);
        let mut j = hist::stats_json(&r);
        j["scenario"] = json!(p.scenario.name);
        j["clock"] = json!(format!("{:?}", p.clock));
        j["depth_bound"] = json!(p.depth);
        j["state_key"] = json!(if p.ordered { "total order of timestamps" } else { "equality partition of timestamps" });
        j["states"] = json!(r.states);
        j["transitions"] = json!(r.stats.transitions);
        per.push(j);
        for path in r.sample_paths.iter().take(2)
        {
            rep.push_sample(json!({"scenario": p.scenario.name, "history": hist::ops_short(path)}));
        }
        // confirm and report findings: replay each distinct one twice without the explorer
        let mut seen_sigs = std::collections::BTreeSet::new();
        for (path, f) in r.findings.iter()
        {
            if f.property != id { continue; }
            let sig = hist::finding_signature(&p.scenario, p.clock, f);
            if !seen_sigs.insert(sig.clone()) { continue; }
            // shortest witness for this signature
            let best = r.findings.iter().filter(|(_, g)| g.property == id && hist::finding_signature(&p.scenario, p.clock, g) == sig)
                .min_by_key(|(pp, _)| pp.len()).unwrap();
            let (path, f) = (&best.0, &best.1);
            let mut ok = 0;
            for _ in 0..2
            {
                let (fs, _fail, _st) = hist::replay_history(&p.scenario, p.clock, &or, p.paired, p.c10, path);
                if fs.iter().any(|(_, g)| hist::finding_signature(&p.scenario, p.clock, g) == sig) { ok += 1; }
            }
            if ok != 2
            {
                rep.machinery(format!("finding {:?} after [{}] did not reproduce on replay ({}/2)", sig, hist::ops_short(path), ok));
                continue;
            }
            rep.violation(hist::to_violation(&p.scenario, p.clock, p.paired, path, f));
        }
        for (path, msg) in r.failures.iter()
        {
            // panics / deadlocks inside ruler during a transition: a C05-class event; for other
            // properties it is reported as a violation of the property being checked only if
            // it reproduces, since the transition could not be judged
            let what = format!("ruler panicked or deadlocked: {}", first_line(msg));
            let v = Violation
            {
                property: id.to_string(),
                signature: format!("{}:hist:{}:{:?}:{}", id, p.scenario.name, p.clock, what),
                summary: format!("{} after [{}]", msg, hist::ops_short(path)),
                replay: json!({"engine": "hist", "scenario": p.scenario.name, "clock": format!("{:?}", p.clock), "paired": p.paired, "ops": path, "what": what}),
            };
            if msg.contains(crate::sched::DIVERGENCE)
            {
                rep.machinery(format!("schedule divergence: {}", msg));
            }
            else
            {
                rep.violation(v);
            }
        }
    }
    rep.add("states", states);
    rep.add("transitions", transitions);
    rep.add("traces_validated_against_impl", impl_runs);
    rep.add("obligations_checked", obligations);
    rep.add("nontrivial_obligations", nontrivial);
    rep.set("max_depth", json!(max_depth));
    rep.set("exhaustive", json!(exhaustive));
    rep.set("per_scenario", json!(per));
}


#[derive(Clone, Debug)]
pub struct Phase
{
    pub label: &'static str,
    pub por: bool,
    pub bound: Option<usize>,
    pub secs: f64,
}

pub fn phases(tier: &str) -> Vec<Phase>
{
    if tier == "thorough"
    {
        vec![
            Phase { label: "preemption-bound-0", por: false, bound: Some(0), secs: 8.0 },
            Phase { label: "preemption-bound-1", por: false, bound: Some(1), secs: 15.0 },
            Phase { label: "dpor-unbounded", por: true, bound: None, secs: 90.0 },
            Phase { label: "preemption-bound-2", por: false, bound: Some(2), secs: 15.0 },
            // only run when bound 1 was small: complete enumeration of *all* schedules, no reduction
            Phase { label: "plain-unbounded", por: false, bound: None, secs: 20.0 },
        ]
    }
    else
    {
        vec![
            Phase { label: "preemption-bound-0", por: false, bound: Some(0), secs: 0.6 },
            Phase { label: "dpor-unbounded", por: true, bound: None, secs: 3.0 },
            Phase { label: "preemption-bound-1", por: false, bound: Some(1), secs: 0.8 },
        ]
    }
}

/// the phases used when schedules are a secondary quantifier of the property
pub fn phases_light(tier: &str) -> Vec<Phase>
{
    if tier == "thorough"
    {
        vec![
            Phase { label: "preemption-bound-0", por: false, bound: Some(0), secs: 10.0 },
            Phase { label: "dpor-unbounded", por: true, bound: None, secs: 60.0 },
            Phase { label: "preemption-bound-1", por: false, bound: Some(1), secs: 20.0 },
        ]
    }
    else
    {
        vec![
            Phase { label: "dpor-unbounded", por: true, bound: None, secs: 2.0 },
            Phase { label: "preemption-bound-0", por: false, bound: Some(0), secs: 0.3 },
        ]
    }
}

/// Explore every case in phases: plain preemption-bounded enumeration with small bounds
/// first (so the first counterexample has the fewest preemptions), then the unbounded
/// search with sleep sets.  Fills the report.
pub fn run_sched_plans(rep: &mut Report, id: &str, cases: Vec<SchedCase>, phases: Vec<Phase>, or: Oracles)
{
    let c03 = id == "C03";
    let mut total_sched = 0u64;
    let mut total_states = 0u64;
    let mut per = vec![];
    let mut all_complete = true;
    let mut distinct_outcomes_total = 0u64;
    let mut skipped_cases: Vec<String> = vec![];
    for case in cases
    {
        let prep = match schedeng::prepare(&case)
        {
            Ok(p) => p,
            Err(e) =>
            {
                // ruler panicked or hung while the case's pre-history was run serially: that is C05's
                // business (and a replayable history); the other properties skip the case and say so
                if id == "C05"
                {
                    rep.violation(Violation
                    {
                        property: "C05".into(),
                        signature: format!("C05:sched:{}:pre-history:{}", case.name, crate::cli::first_line(&e)),
                        summary: format!("a build or clean of the pre-history [{}] of case {} failed on the serial schedule: {}", hist::ops_short(&case.pre), case.name, e),
                        replay: json!({"engine": "sched", "case": case.name, "what": "pre-history", "ops": case.pre}),
                    });
                }
                else
                {
                    skipped_cases.push(format!("{}: {}", case.name, crate::cli::first_line(&e)));
                }
                all_complete = false;
                continue;
            },
        };
        let mut per_phase = vec![];
        let mut merged = schedeng::CaseResult::default();
        let mut por_complete = false;
        let mut unreduced_outcomes: std::collections::BTreeSet<String> = Default::default();
        let mut unreduced_states: std::collections::BTreeSet<[u8; 16]> = Default::default();
        let mut por_outcomes: std::collections::BTreeSet<String> = Default::default();
        let mut por_states: std::collections::BTreeSet<[u8; 16]> = Default::default();
        let mut largest_bound: Option<usize> = None;
        let mut bound1_small = false;
        for ph in phases.iter()
        {
            if ph.label == "plain-unbounded" && !bound1_small { continue; }
            let deadline = Instant::now() + Duration::from_millis((ph.secs * 1000.0) as u64);
            let cfg = ExploreCfg { snapshots: false, por: ph.por, bound: ph.bound, threads: threads(), deadline, max_schedules: 100_000_000, oracles: or.clone(), c03, c04_history: id == "C04" };
            let r = schedeng::explore(&case, &prep, &cfg);
            let capped = r.cap_hit;
            per_phase.push(json!({"phase": ph.label, "executions": r.schedules, "complete": !capped,
                "distinct_outcomes": r.outcomes.len(), "distinct_end_states": r.end_states.len()}));
            total_sched += r.schedules;
            if ph.label == "preemption-bound-1" && !capped && r.schedules < 3000 { bound1_small = true; }
            if ph.por
            {
                if !capped { por_complete = true; }
                por_outcomes.extend(r.outcomes.keys().cloned());
                por_states.extend(r.end_states.iter().cloned());
            }
            else
            {
                if !capped { largest_bound = Some(largest_bound.map(|b| b.max(ph.bound.unwrap_or(99))).unwrap_or(ph.bound.unwrap_or(99))); }
                unreduced_outcomes.extend(r.outcomes.keys().cloned());
                unreduced_states.extend(r.end_states.iter().cloned());
            }
            let found = !r.findings.is_empty() || !r.failures.is_empty() || r.outcomes.len() > 1;
            merged.max_points = merged.max_points.max(r.max_points);
            merged.max_steps = merged.max_steps.max(r.max_steps);
            for (k, (n, ex)) in r.outcomes { let e = merged.outcomes.entry(k).or_insert((0, ex)); e.0 += n; }
            merged.end_states.extend(r.end_states);
            merged.findings.extend(r.findings);
            merged.failures.extend(r.failures);
            merged.harness_errors.extend(r.harness_errors);
            merged.schedules += r.schedules;
            if found { break; }
        }
        // self-check of the reduction: whatever plain enumeration reached, the complete reduced search reached too
        if por_complete && !case.name.starts_with("damaged-")
        {
            for k in unreduced_outcomes.iter()
            {
                if !por_outcomes.contains(k) { rep.machinery(format!("case {}: outcome {:?} found by plain enumeration but not by the complete DPOR search", case.name, k)); }
            }
            for k in unreduced_states.iter()
            {
                if !por_states.contains(k) { rep.machinery(format!("case {}: an end state found by plain enumeration was not reached by the complete DPOR search", case.name)); }
            }
        }
        let clean = merged.findings.is_empty() && merged.failures.is_empty() && merged.outcomes.len() <= 1;
        if clean && !por_complete { all_complete = false; }
        let r = merged;
        total_states += r.end_states.len() as u64;
        distinct_outcomes_total += r.outcomes.len() as u64;
        for e in &r.harness_errors
        {
            rep.machinery(format!("case {}: {}", case.name, e));
        }
        per.push(json!({
            "case": case.name,
            "pre_history": hist::ops_short(&case.pre),
            "operation": case.op.short(),
            "phases": per_phase,
            "all_interleavings_covered_up_to_commutation": por_complete,
            "largest_plain_preemption_bound_completed": largest_bound,
            "max_choice_points": r.max_points,
            "max_scheduling_points": r.max_steps,
            "outcomes": schedeng::outcomes_json(&r),
        }));
        if let Some((_k, (_n, ex))) = r.outcomes.iter().next()
        {
            rep.push_sample(json!({"case": case.name, "pre_history": hist::ops_short(&case.pre), "operation": case.op.short(), "schedule_choices": ex}));
        }
        // findings of this property
        let mut seen = std::collections::BTreeSet::new();
        for (choices, f) in r.findings.iter()
        {
            if f.property != id { continue; }
            let sig = schedeng::finding_signature(&case, f);
            if !seen.insert(sig.clone()) { continue; }
            let mut ok = 0;
            for _ in 0..2
            {
                let (res, _o) = schedeng::run_schedule(&case, &prep, &or, c03, choices.clone());
                if let Some((_k, fs)) = res
                {
                    if fs.iter().any(|g| schedeng::finding_signature(&case, g) == sig) { ok += 1; }
                }
            }
            if ok != 2
            {
                rep.machinery(format!("finding {:?} did not reproduce on replay of schedule {:?} ({}/2)", sig, choices, ok));
                continue;
            }
            rep.violation(schedeng::to_violation(&case, choices, f, c03));
        }
        if id == "C05"
        {
            let mut seen = std::collections::BTreeSet::new();
            for (choices, msg) in r.failures.iter()
            {
                let what = format!("{}", first_line(msg));
                let sig = format!("C05:sched:{}:{}", case.name, what);
                if !seen.insert(sig.clone()) { continue; }
                let mut ok = 0;
                for _ in 0..2
                {
                    let (_res, o) = schedeng::run_schedule(&case, &prep, &or, false, choices.clone());
                    if o.failure.as_ref().map(|m| first_line(m) == what).unwrap_or(false) { ok += 1; }
                }
                if ok != 2
                {
                    rep.machinery(format!("failure {:?} did not reproduce on replay of schedule {:?} ({}/2)", sig, choices, ok));
                    continue;
                }
                rep.violation(Violation
                {
                    property: "C05".into(),
                    signature: sig,
                    summary: format!("case {} schedule {:?}: {}", case.name, choices, msg),
                    replay: json!({"engine": "sched", "case": case.name, "choices": choices, "what": what, "c03": false}),
                });
            }
        }
        if id == "C06" && r.outcomes.len() > 1
        {
            let keys: Vec<String> = r.outcomes.keys().map(|k| k.split(" | ").next().unwrap_or("").chars().take(200).collect()).collect();
            let examples: Vec<&Vec<u8>> = r.outcomes.values().map(|(_n, ex)| ex).collect();
            // confirm: the two example schedules reproduce two different outcomes, twice
            let mut ok = true;
            for _ in 0..2
            {
                let a = schedeng::run_schedule(&case, &prep, &or, false, examples[0].clone());
                let b = schedeng::run_schedule(&case, &prep, &or, false, examples[1].clone());
                let (ar, ao) = a;
                let (br, bo) = b;
                let ka = match ar { Some(x) => x.0, None => format!("FAILED: {}", first_line(&ao.failure.unwrap_or_default())) };
                let kb = match br { Some(x) => x.0, None => format!("FAILED: {}", first_line(&bo.failure.unwrap_or_default())) };
                if ka == kb { ok = false; }
            }
            if !ok
            {
                rep.machinery(format!("case {}: differing outcomes did not reproduce", case.name));
            }
            else
            {
                let mut verdicts: Vec<String> = keys.clone();
                verdicts.sort();
                verdicts.dedup();
                rep.violation(Violation
                {
                    property: "C06".into(),
                    signature: format!("C06:sched:{}:outcome depends on the schedule: {}", case.name, verdicts.join(" / ")),
                    summary: format!("case {} [{} then {}]: {} distinct outcomes over {} schedules: {:?}", case.name, hist::ops_short(&case.pre), case.op.short(),
                        r.outcomes.len(), r.schedules, r.outcomes.iter().map(|(k, (n, _))| format!("{} x{}", k, n)).collect::<Vec<_>>()),
                    replay: json!({"engine": "sched", "case": case.name, "choices": examples[1], "other_choices": examples[0], "what": "outcome differs", "c03": false}),
                });
            }
        }
    }
    rep.add("schedules", total_sched);
    rep.add("states", total_states);
    rep.add("transitions", total_sched);
    rep.add("traces_validated_against_impl", total_sched);
    rep.add("distinct_outcomes", distinct_outcomes_total);
    let prev = rep.coverage.get("exhaustive").and_then(|v| v.as_bool()).unwrap_or(true);
    rep.set("exhaustive", json!(prev && all_complete));
    rep.set("per_case", json!(per));
    if !skipped_cases.is_empty() { rep.set("cases_skipped_because_their_pre_history_failed", json!(skipped_cases)); }
}

/// C01 with the rules spread over several files (`--rules a.rules --rules b.rules`): for S3 and S14,
/// every way of cutting the rule list in two, every history of depth <= 3 over {edit, build}: the
/// verdict and the targets must be those of the reference evaluator, as with one file.
fn several_rules_files_probe(rep: &mut Report)
{
    let mut total_runs = 0u64;
    let mut splits = 0u64;
    for sc in [scen::s3_multi(), scen::s14_five()]
    {
        let rules = sc.variants[0].clone();
        for cut in 1..rules.len()
        {
            for swap in [false, true]
            {
                splits += 1;
                let sc2 = sc.clone();
                let rules2 = rules.clone();
                let (r, outcome) = crate::sched::run_once(vec![], move ||
                {
                    let rc = crate::world::RunCfg::serial(ClockModel::Strict);
                    let init = hist::initial_state(&sc2, false);
                    let mut fs0 = init.fs.clone();
                    fs0.remove(crate::world::RULES_FILE);
                    crate::world::user_write(&mut fs0, "a.rules", crate::memsys::bytes(&crate::model::render_rules(&rules2[..cut].to_vec())));
                    crate::world::user_write(&mut fs0, "b.rules", crate::memsys::bytes(&crate::model::render_rules(&rules2[cut..].to_vec())));
                    let files: Vec<String> = if swap { vec!["b.rules".into(), "a.rules".into()] } else { vec!["a.rules".into(), "b.rules".into()] };
                    let mut bad: Option<(Vec<String>, String)> = None;
                    let mut runs = 0u64;
                    let mut frontier: Vec<(crate::memsys::Fs, Vec<String>)> = vec![(fs0, vec![])];
                    for _d in 0..3
                    {
                        let mut next = vec![];
                        for (fs, path) in &frontier
                        {
                            // edits of every leaf to its other value
                            for (leaf, dom) in &sc2.edits
                            {
                                for v in dom
                                {
                                    if fs.read(leaf).as_ref() == Some(v) { continue; }
                                    let mut f = fs.clone();
                                    crate::world::user_write(&mut f, leaf, v.clone());
                                    let mut np = path.clone();
                                    np.push(format!("edit({})", leaf));
                                    next.push((f, np));
                                }
                            }
                            for goal in &sc2.goals
                            {
                                let rr = crate::world::run_build_with(fs, &rc, goal, crate::world::RULER_DIR, files.clone());
                                runs += 1;
                                let mut np = path.clone();
                                np.push(format!("build({}) --rules {} --rules {}", goal.clone().unwrap_or_default(), files[0], files[1]));
                                match hist::expected_verdict(&rules2, fs, goal)
                                {
                                    Some((want, scope, ev)) =>
                                    {
                                        if rr.verdict != want && bad.is_none() { bad = Some((np.clone(), format!("verdict {:?} where {:?} is expected", rr.verdict, want))); }
                                        if rr.verdict == crate::world::Verdict::Ok
                                        {
                                            for i in &scope
                                            {
                                                for t in rules2[*i].sorted_targets()
                                                {
                                                    let w = ev.values.get(&t).map(|x| x.0.clone());
                                                    if rr.fs.read(&t) != w && bad.is_none() { bad = Some((np.clone(), format!("target {} is not what the rules of both files produce from scratch", t))); }
                                                }
                                            }
                                        }
                                    },
                                    None => {},
                                }
                                next.push((rr.fs, np));
                            }
                        }
                        frontier = next;
                    }
                    (bad, runs)
                });
                match (r, outcome.failure)
                {
                    (Some((bad, runs)), None) =>
                    {
                        total_runs += runs;
                        if let Some((path, what)) = bad
                        {
                            rep.violation(Violation
                            {
                                property: "C01".into(),
                                signature: "C01:rulesfiles:a build from several rules files differs from the reference".to_string(),
                                summary: format!("{} ({} cut after rule {}, files {}) after [{}]", what, sc.name, cut, if swap { "in reverse order" } else { "in order" }, path.join(" ; ")),
                                replay: json!({"engine": "rulesfiles"}),
                            });
                        }
                    },
                    (_, Some(f)) =>
                    {
                        rep.violation(Violation
                        {
                            property: "C01".into(),
                            signature: "C01:rulesfiles:a build from several rules files panicked or hung".to_string(),
                            summary: format!("{} cut after rule {}: {}", sc.name, cut, f),
                            replay: json!({"engine": "rulesfiles"}),
                        });
                    },
                    _ => rep.machinery("several-rules-files probe produced no result".to_string()),
                }
            }
        }
    }
    rep.set("several_rules_files_probe", json!({"scenarios": ["S3-multi", "S14-five"], "splits": splits, "depth": 3, "builds": total_runs}));
    rep.add("traces_validated_against_impl", total_runs);
}

/// C14 at the file level: the rules file is missing, empty, blank, not UTF-8, a directory, or one of
/// two files is missing — build and clean (with and without a goal) must come back with a value (an
/// error where there is nothing to parse), never panic or hang, and change nothing in the workspace.
fn rules_file_io_probe(rep: &mut Report)
{
    let sc = scen::s1_chain();
    let mut runs = 0u64;
    let variants: Vec<(&str, Option<Vec<u8>>, bool)> = vec![
        ("the rules file is missing", None, true),
        ("the rules file is empty", Some(vec![]), false),
        ("the rules file holds only blank lines", Some(b"\n\n\n".to_vec()), false),
        ("the rules file is not UTF-8", Some(vec![0xff, 0xfe, b'\n', b':', b'\n']), true),
        ("the rules file ends in the middle of a rule", Some(b"t\n:\ns1\n".to_vec()), true),
        ("the rules file holds a NUL byte", Some(b"t\0\n:\ns1\n:\ncat s1 > t\n:\n".to_vec()), false),
    ];
    for (what, content, must_fail) in variants
    {
        for second_missing in [false, true]
        {
            for op in ["build", "clean"]
            {
                for goal in [None, Some("t".to_string())]
                {
                    let sc2 = sc.clone();
                    let content2 = content.clone();
                    let goal2 = goal.clone();
                    let (r, outcome) = crate::sched::run_once(vec![], move ||
                    {
                        let rc = crate::world::RunCfg::serial(ClockModel::Strict);
                        let mut fs = hist::initial_state(&sc2, false).fs.clone();
                        fs.remove(crate::world::RULES_FILE);
                        if let Some(c) = &content2 { crate::world::user_write(&mut fs, crate::world::RULES_FILE, std::sync::Arc::new(c.clone())); }
                        let files: Vec<String> = if second_missing { vec![crate::world::RULES_FILE.to_string(), "missing.rules".to_string()] } else { vec![crate::world::RULES_FILE.to_string()] };
                        let rr = if op == "build" { crate::world::run_build_with(&fs, &rc, &goal2, crate::world::RULER_DIR, files) } else { crate::world::run_clean_in(&fs, &rc, &goal2, crate::world::RULER_DIR) };
                        let outside: Vec<String> = rr.log.muts.iter().filter(|m| m.ok && !m.in_cmd && !(m.path == crate::world::RULER_DIR || m.path.starts_with(".ruler/"))).map(|m| m.path.clone()).collect();
                        (rr.verdict, outside)
                    });
                    runs += 1;
                    let desc = format!("{}{}; {}({})", what, if second_missing && op == "build" { " and a second rules file is missing" } else { "" }, op, goal.clone().unwrap_or_default());
                    match (r, outcome.failure)
                    {
                        (Some((verdict, outside)), None) =>
                        {
                            if (must_fail || (second_missing && op == "build")) && verdict == crate::world::Verdict::Ok
                            {
                                rep.violation(Violation { property: "C14".into(), signature: "C14:files:no error although there is no readable rules text".to_string(),
                                    summary: format!("{}: returned success", desc), replay: json!({"engine": "rulesio"}) });
                            }
                            // (a rules text that does parse, however odd, may of course run commands)
                            if !outside.is_empty() && !what.contains("NUL")
                            {
                                rep.violation(Violation { property: "C14".into(), signature: "C14:files:the workspace was changed although the rules could not be read or are empty".to_string(),
                                    summary: format!("{}: changed {:?}", desc, outside), replay: json!({"engine": "rulesio"}) });
                            }
                        },
                        (_, Some(f)) =>
                        {
                            rep.violation(Violation { property: "C14".into(), signature: "C14:files:reading the rules panicked or hung".to_string(),
                                summary: format!("{}: {}", desc, f), replay: json!({"engine": "rulesio"}) });
                        },
                        _ => rep.machinery("rules-file probe produced no result".to_string()),
                    }
                }
            }
        }
    }
    rep.set("rules_file_io_probe_runs", json!(runs));
    rep.add("traces_validated_against_impl", runs);
}

/// C09, "inside its own directory": every history of depth <= 3 over {edit, build, build(goal), clean,
/// clean(goal)} of scenario S9 with the ruler directory set to something other than the default.
/// Every mutation ruler itself makes must be on an in-scope target or inside THAT directory, and
/// nothing may appear under the default name.
fn alt_directory_probe(rep: &mut Report)
{
    const ALT: &str = "state-dir";
    let sc = scen::s9_scope();
    let sc2 = sc.clone();
    let (r, outcome) = crate::sched::run_once(vec![], move ||
    {
        let rc = crate::world::RunCfg::serial(ClockModel::Strict);
        let rules = sc2.variants[0].clone();
        let g = crate::model::Graph::new(&rules);
        let mut findings: Vec<(Vec<String>, String)> = vec![];
        let mut runs = 0u64;
        let init = hist::initial_state(&sc2, false);
        // op alphabet: edits of the first leaf, build / clean with every goal
        #[derive(Clone)]
        enum P { Edit(usize), Build(Option<String>), Clean(Option<String>) }
        let mut alphabet: Vec<P> = vec![P::Edit(0), P::Edit(1)];
        for goal in &sc2.goals { alphabet.push(P::Build(goal.clone())); alphabet.push(P::Clean(goal.clone())); }
        let mut frontier: Vec<(crate::memsys::Fs, Vec<String>)> = vec![(init.fs.clone(), vec![])];
        for _depth in 0..3
        {
            let mut next = vec![];
            for (fs, path) in &frontier
            {
                for p in &alphabet
                {
                    let mut np = path.clone();
                    let nfs = match p
                    {
                        P::Edit(v) => { np.push(format!("edit({},{})", sc2.edits[0].0, v)); let mut f = fs.clone(); crate::world::user_write(&mut f, &sc2.edits[0].0, sc2.edits[0].1[*v].clone()); f },
                        P::Build(goal) | P::Clean(goal) =>
                        {
                            let is_build = matches!(p, P::Build(_));
                            np.push(format!("{}({}) --directory {}", if is_build { "build" } else { "clean" }, goal.clone().unwrap_or_default(), ALT));
                            let rr = if is_build { crate::world::run_build_in(fs, &rc, goal, ALT) } else { crate::world::run_clean_in(fs, &rc, goal, ALT) };
                            runs += 1;
                            let scope_targets: std::collections::BTreeSet<String> = match g.scope(goal) { Some(s) => g.scope_targets(&s), None => Default::default() };
                            for m in rr.log.muts.iter().filter(|m| m.ok && !m.in_cmd)
                            {
                                let mut ps = vec![m.path.clone()];
                                if let crate::memsys::MutKind::Rename { to, .. } = &m.kind { ps.push(to.clone()); }
                                for q in ps
                                {
                                    let inside = q == ALT || q.starts_with(&format!("{}/", ALT));
                                    if !inside && !scope_targets.contains(&q)
                                    {
                                        findings.push((np.clone(), format!("ruler itself changed {:?}, which is neither an in-scope target nor inside the ruler directory it was given ({})", q, ALT)));
                                    }
                                }
                            }
                            if rr.fs.map.keys().any(|k| k == crate::world::RULER_DIR || k.starts_with(".ruler/"))
                            {
                                findings.push((np.clone(), format!("a directory named {} appeared although the ruler directory was given as {}", crate::world::RULER_DIR, ALT)));
                            }
                            rr.fs
                        },
                    };
                    next.push((nfs, np));
                }
            }
            frontier = next;
        }
        (findings, runs, frontier.len() as u64)
    });
    match (r, outcome.failure)
    {
        (Some((findings, runs, leaves)), None) =>
        {
            rep.set("alternate_directory_probe", json!({"directory": ALT, "depth": 3, "histories": leaves, "ruler_invocations": runs}));
            rep.add("traces_validated_against_impl", runs);
            if let Some((path, what)) = findings.into_iter().next()
            {
                rep.violation(Violation
                {
                    property: "C09".into(),
                    signature: "C09:altdir:ruler touched a path outside the ruler directory it was given".to_string(),
                    summary: format!("{} after [{}]", what, path.join(" ; ")),
                    replay: json!({"engine": "altdir"}),
                });
            }
        },
        (_, Some(f)) =>
        {
            rep.violation(Violation
            {
                property: "C09".into(),
                signature: "C09:altdir:ruler failed when given another ruler directory".to_string(),
                summary: format!("a build or clean with --directory {} panicked or hung: {}", ALT, f),
                replay: json!({"engine": "altdir"}),
            });
        },
        _ => rep.machinery("alternate directory probe produced no result".to_string()),
    }
}

pub fn first_line(s: &str) -> String
{
    s.lines().next().unwrap_or("").chars().take(160).collect()
}

fn tiered(tier: &str, q: usize, t: usize) -> usize
{
    if tier == "thorough" { t } else { q }
}

fn check(id: &str, tier: &str) -> i32
{
    let mut rep = Report::new(id, tier);
    let thorough = tier == "thorough";
    // a call into ruler that does not return within the limit is reported as a violation (watch.rs)
    crate::watch::start(id, tier, Duration::from_secs(if thorough { 90 } else { 45 }));
    let secs = if thorough { 240 } else { 25 };
    match id
    {
        "C01" =>
        {
            rep.assume("commands are deterministic functions of their declared sources (mini-shell cat); distinct writes carry distinct mtimes (strict clock)");
            let mut plans = vec![];
            for (sc, q, t) in vec![(scen::s1_chain(), 6, 9), (scen::s3_multi(), 6, 9), (scen::s2_diamond(), 5, 8), (scen::s4_twins(), 5, 8), (scen::s5_variants(), 6, 9), (scen::s8_failures(), 5, 8), (scen::s10_bundle(), 6, 8), (scen::s11_three(), 5, 7), (scen::s16_big(), 4, 6), (scen::s13_binary(), 5, 7), (scen::s18_empty(), 6, 8), (scen::s19_aside(), 8, 10), (scen::s20_dir_source(), 5, 7), (scen::s21_unicode_names(), 5, 7), (scen::s22_leaf_becomes_target(), 6, 8)]
            {
                let mut p = plan(sc, tiered(tier, q, t));
                p.secs = secs;
                plans.push(p);
            }
            if thorough { let mut p = plan(scen::s1_chain_xyz(), 7); p.secs = secs; plans.push(p); let mut p = plan(scen::s14_five(), 6); p.secs = secs; plans.push(p); } else { let mut p = plan(scen::s14_five(), 4); p.secs = secs; plans.push(p); }
            plans.extend(coarse_plans(tier, secs, vec![(scen::s1_chain(), 6, 8), (scen::s3_multi(), 5, 7), (scen::s4_twins(), 5, 7), (scen::s19_aside(), 8, 10)]));
            run_hist_plans(&mut rep, id, plans);
            several_rules_files_probe(&mut rep);
            rep.assume("real binary: every maximal model trace of depth 3 (4) of S1, S10, S12 is replayed with /bin/sh commands in a scratch directory and compared with the model after every step (verdict, workspace bytes and permissions, cache names, decoded histories)");
            crate::realbin::run_realfs_for(&mut rep, tier, "C01", vec![scen::s1_chain(), scen::s10_bundle(), scen::s12_multiline_failure(), scen::s21_unicode_names()]);
        },
        "C02" =>
        {
            rep.assume("as C01; the must-not-run obligation is asserted only when the harness's own record shows an earlier successful execution on identical sources, the needed contents were in the cache before the build, and no cache content is needed by two targets at once");
            let mut plans = vec![];
            for (sc, q, t) in vec![(scen::s1_chain(), 6, 9), (scen::s3_multi(), 6, 8), (scen::s2_diamond(), 5, 8), (scen::s4_twins(), 6, 8), (scen::s5_variants(), 6, 9), (scen::s11_three(), 5, 7), (scen::s10_bundle(), 6, 8), (scen::s8_failures(), 5, 7), (scen::s12_multiline_failure(), 4, 6), (scen::s18_empty(), 6, 8), (scen::s19_aside(), 8, 10), (scen::s22_leaf_becomes_target(), 6, 8)]
            {
                let mut p = plan(sc, tiered(tier, q, t));
                p.secs = secs;
                plans.push(p);
            }
            if thorough { let mut p = plan(scen::s1_chain_xyz(), 7); p.secs = secs; plans.push(p); let mut p = plan(scen::s14_five(), 6); p.secs = secs; plans.push(p); } else { let mut p = plan(scen::s14_five(), 4); p.secs = secs; plans.push(p); }
            plans.extend(coarse_plans(tier, secs, vec![(scen::s1_chain(), 6, 8), (scen::s3_multi(), 5, 7), (scen::s4_twins(), 5, 7), (scen::s19_aside(), 8, 10)]));
            run_hist_plans(&mut rep, id, plans);
        },
        "C07" | "C08" =>
        {
            rep.assume("strict clock (distinct writes carry distinct mtimes) except for the S17b plan, which uses the coarse clock (one tick per user action or ruler invocation); commands write atomically; `false` and a failed `test -f` guard write nothing");
            let mut plans = vec![];
            for (sc, q, t) in vec![(scen::s1_chain(), 6, 9), (scen::s3_multi(), 6, 8), (scen::s4_twins(), 6, 9), (scen::s5_variants(), 6, 9), (scen::s6_exec(), 6, 9), (scen::s8_failures(), 6, 9), (scen::s16_big(), 4, 6), (scen::s18_empty(), 6, 8), (scen::s19_aside(), 8, 10)]
            {
                let mut p = plan(sc, tiered(tier, q, t));
                p.secs = secs;
                plans.push(p);
            }
            if thorough { let mut p = plan(scen::s1_chain_xyz(), 7); p.secs = secs; plans.push(p); let mut p = plan(scen::s14_five(), 6); p.secs = secs; plans.push(p); } else { let mut p = plan(scen::s14_five(), 4); p.secs = secs; plans.push(p); }
            // coarse clock (files written in one build share a modification time), a command that can fail
            // without touching its outputs, byte-identical twins: partial recovery followed by a failure
            { let mut p = plan(scen::s17b_failing_twins3(), tiered(tier, 12, 13)); p.clock = ClockModel::Coarse; p.ordered = false; p.secs = secs; plans.push(p); }
            plans.extend(coarse_plans(tier, secs, vec![(scen::s1_chain(), 6, 8), (scen::s3_multi(), 5, 7), (scen::s4_twins(), 5, 7), (scen::s6_exec(), 5, 7)]));
            run_hist_plans(&mut rep, id, plans);
            // all explored schedules (end states of C03-C06) and all crash points of C11
            let cases: Vec<SchedCase> = schedeng::success_cases(tier).into_iter().filter(|c| !c.name.starts_with("chain3")).collect();
            run_sched_plans(&mut rep, id, cases, phases_light(tier), Oracles::only(id));
            crate::crash::run_crash(&mut rep, tier, id);
        },
        "C09" =>
        {
            rep.assume("scope (goal's rule and its ancestors) is computed from the scenario structure, not from ruler's sorter; commands are exempt");
            let mut plans = vec![];
            for (sc, q, t) in vec![(scen::s9_scope(), 6, 8), (scen::s3_multi(), 6, 8), (scen::s8_failures(), 6, 8), (scen::s15_repeated(), 5, 6)]
            {
                let mut p = plan(sc, tiered(tier, q, t));
                p.secs = secs;
                plans.push(p);
            }
            run_hist_plans(&mut rep, id, plans);
            alt_directory_probe(&mut rep);
        },
        "C10" =>
        {
            rep.assume("'up to date before the clean' = targets equal the reference values and ruler's own immediate rebuild runs nothing; probes: clean(g) then build(g') for every goal pair at every reached state");
            let mut plans = vec![];
            for (sc, q, t) in vec![(scen::s6_exec(), 5, 8), (scen::s3_multi(), 5, 7), (scen::s4_twins(), 5, 8), (scen::s1_chain(), 5, 8)]
            {
                let mut p = plan(sc, tiered(tier, q, t));
                p.secs = secs;
                p.c10 = true;
                plans.push(p);
            }
            run_hist_plans(&mut rep, id, plans);
            rep.assume("realfs: the same rules text and /bin/sh commands are run by the real binary in a scratch directory; user actions are spaced by 2 ms so that modification times differ");
            crate::realbin::run_realfs(&mut rep, tier);
            crate::realbin::symlink_target_probe(&mut rep);
        },
        "C17" =>
        {
            rep.assume("the undeclared input is an ordinary file the command reads; 'recorded before' is read from ruler's own history file through mirror serde types");
            let mut plans = vec![];
            for m in 0..4
            {
                let mut p = plan(scen::s7_undeclared(m), tiered(tier, 7, 8));
                p.secs = secs;
                plans.push(p);
            }
            { let mut p = plan(scen::s7_preserving(), tiered(tier, 7, 8)); p.secs = secs; plans.push(p); }
            for m in (if thorough { vec![0u8, 1, 2, 3, 4, 5, 6, 7] } else { vec![3u8, 5, 6, 7] })
            {
                let mut p = plan(scen::s7_undeclared3(m), tiered(tier, 6, 7));
                p.secs = secs;
                plans.push(p);
            }
            run_hist_plans(&mut rep, id, plans);
        },
        "C18" =>
        {
            rep.assume("product search: every op is applied to two worlds, the second has .ruler/current_file_states removed before every build; clock models: strict (every write a fresh tick) and coarse (one tick per user action or ruler invocation)");
            let mut plans = vec![];
            for clock in [ClockModel::Strict, ClockModel::Coarse]
            {
                for (sc, q, t) in vec![(scen::s3_c18(), 10, 14), (scen::s4_c18(), 8, 12), (scen::s1_chain(), 6, 8), (scen::s3_multi(), 5, 8),
                    (scen::s4_twins(), 6, 8), (scen::s5_variants(), 5, 8), (scen::s2_diamond(), 5, 7), (scen::s6_exec(), 6, 9), (scen::s17_c18_failing_twins(), 12, 14), (scen::s19_aside(), 8, 10)]
                {
                    let saturating = sc.name.ends_with("-c18") || sc.name.starts_with("S17-c18");
                    let mut p = plan(sc, tiered(tier, q, t));
                    p.clock = clock;
                    p.paired = true;
                    p.secs = secs;
                    p.ordered = !saturating;
                    plans.push(p);
                }
            }
            run_hist_plans(&mut rep, id, plans);
        },
        "C20" =>
        {
            rep.assume("Built = the rule's command is in this build's command log; Recovered = a rename from .ruler/cache onto the target; Up-to-date = no mutation touched the target");
            let mut plans = vec![];
            for (sc, q, t) in vec![(scen::s1_chain(), 6, 9), (scen::s3_multi(), 6, 8), (scen::s4_twins(), 6, 8), (scen::s6_exec(), 6, 8), (scen::s8_failures(), 6, 8), (scen::s11_three(), 6, 8), (scen::s10_bundle(), 6, 8), (scen::s18_empty(), 6, 8)]
            {
                let mut p = plan(sc, tiered(tier, q, t));
                p.secs = secs;
                plans.push(p);
            }
            plans.extend(coarse_plans(tier, secs, vec![(scen::s3_multi(), 5, 7), (scen::s4_twins(), 5, 7)]));
            run_hist_plans(&mut rep, id, plans);
            let mut cases: Vec<SchedCase> = schedeng::success_cases(tier);
            cases.extend(schedeng::failure_cases(tier));
            run_sched_plans(&mut rep, id, cases, phases_light(tier), Oracles::only(id));
            rep.assume("real binary: the status lines printed by StandardPrinter are parsed from its standard output and compared with the model's, step by step (scenarios S3, S6, S10 and S8 with its failing and non-producing rules)");
            crate::realbin::run_realfs_for(&mut rep, tier, "C20", vec![scen::s3_multi(), scen::s6_exec(), scen::s10_bundle(), scen::s8_failures()]);
        },
        "C03" =>
        {
            rep.assume("scheduling points: spawn, join, thread exit, channel send/receive, every System call on a cache path or on a target that is another rule's source, and the start of every command; commands themselves are atomic");
            let cases = schedeng::success_cases(tier);
            run_sched_plans(&mut rep, id, cases, phases(tier), Oracles::default());
        },
        "C04" =>
        {
            rep.assume("failing commands are `false` (write nothing); expected errors come from the reference evaluator; order of errors is not compared");
            let mut cases = schedeng::failure_cases(tier);
            cases.extend(schedeng::success_cases(tier).into_iter().filter(|c| c.name.starts_with("diamond/fresh") || c.name.starts_with("multi/fresh")));
            run_sched_plans(&mut rep, id, cases, phases(tier), Oracles::only("C04"));
            // follow-up histories (repair the cause, build again; break it again)
            let mut plans = vec![];
            for (sc, q, t) in vec![(scen::s8_failures(), 6, 9), (scen::s1_chain(), 5, 8), (scen::s12_multiline_failure(), 5, 7), (scen::s15_repeated(), 4, 5), (scen::s18_empty(), 6, 8)]
            {
                let mut p = plan(sc, tiered(tier, q, t));
                p.secs = secs;
                plans.push(p);
            }

            run_hist_plans(&mut rep, id, plans);
        },
        "C05" =>
        {
            rep.assume("shuttle reports 'no runnable task but unfinished tasks' as deadlock; a step cap of 200000 scheduling points stands in for livelock (ruler has no spin loops)");
            let mut cases = schedeng::success_cases(tier);
            cases.extend(schedeng::failure_cases(tier));
            cases.extend(schedeng::damage_cases(tier));
            run_sched_plans(&mut rep, id, cases, phases(tier), Oracles::default());
        },
        "C06" =>
        {
            rep.assume("outcome = (verdict, bytes of every workspace file outside .ruler); cache contents, mtimes, permissions and status lines are not part of it");
            let mut cases = schedeng::success_cases(tier);
            cases.extend(schedeng::failure_cases(tier));
            run_sched_plans(&mut rep, id, cases, phases(tier), Oracles::default());
        },
        "C11" =>
        {
            rep.assume("crash = the file system exactly as it was after some mutation (or after a strict prefix of the bytes of a write); corpus: rule sets whose from-scratch build succeeds; commands write atomically for the content-loss check");
            crate::crash::run_crash(&mut rep, tier, id);
        },
        "C12" =>
        {
            rep.assume("rule sets are built directly as parser-producible Rule values (targets, sources, one command line each)");
            crate::enum_sort::run(&mut rep, tier);
        },
        "C13" =>
        {
            rep.assume("modulo SHA-256 collisions; strings are restricted to what the parser can produce (no newline, no empty string, no lone ':')");
            crate::enum_ident::run(&mut rep, tier);
        },
        "C14" =>
        {
            rep.assume("reference parser: lines are the pieces between '\\n'; errors are reported in file order; where several bundle defects are present any of them is accepted");
            crate::enum_parse::run(&mut rep, tier);
            rules_file_io_probe(&mut rep);
        },
        "C15" =>
        {
            rep.assume("reference SHA-256 and base-62 are the harness's own (no shared code with ruler)");
            crate::enum_hash::run(&mut rep, tier);
        },
        "C16" =>
        {
            rep.assume("bincode 1.3 default configuration, as used by ruler");
            crate::enum_state::run(&mut rep, tier);
        },
        "C19" =>
        {
            rep.assume("only GET requests; responses are read over a plain TcpStream on 127.0.0.1 from the real binary built from /repo with the guard off; expected answers are computed from the materialised directory with the harness's own codecs");
            crate::realbin::run_serve(&mut rep, tier);
        },
        _ =>
        {
            eprintln!("unknown or unimplemented property {}", id);
            return 2;
        },
    }
    rep.finish()
}

/// Replays one recorded item; a replay that does not come back within the limit is itself the
/// verdict "does not return" (the stuck helper thread is abandoned when the process exits).
fn replay(path: &str) -> i32
{
    let p = path.to_string();
    match crate::watch::with_limit(Duration::from_secs(180), move || replay_inner(&p))
    {
        Some(rc) => rc,
        None =>
        {
            let v = report::read_replay(path);
            println!("the replay did not return within 180 s: a call into ruler does not terminate");
            println!("VIOLATION property={} replay={}", v["property"].as_str().unwrap_or("?"), path);
            1
        },
    }
}

fn replay_inner(path: &str) -> i32
{
    let v = report::read_replay(path);
    let prop = v["property"].as_str().unwrap_or("").to_string();
    let r = &v["replay"];
    match r["engine"].as_str().unwrap_or("")
    {
        "symlink" =>
        {
            let mut rep = Report::new(&prop, "quick");
            rep.write_evidence = false;
            crate::realbin::symlink_target_probe(&mut rep);
            match rep.violations.first() { Some(x) => { println!("{}", x.summary); println!("VIOLATION property={} replay={}", prop, path); 1 }, None => 0 }
        },
        "rulesio" =>
        {
            let mut rep = Report::new(&prop, "quick");
            rep.write_evidence = false;
            rules_file_io_probe(&mut rep);
            let sig = v["signature"].as_str().unwrap_or("");
            match rep.violations.iter().find(|x| x.signature == sig) { Some(x) => { println!("{}", x.summary); println!("VIOLATION property={} replay={}", prop, path); 1 }, None => 0 }
        },
        "rulesfiles" =>
        {
            let mut rep = Report::new(&prop, "quick");
            rep.write_evidence = false;
            several_rules_files_probe(&mut rep);
            let sig = v["signature"].as_str().unwrap_or("");
            if rep.violations.iter().any(|x| x.signature == sig) { println!("{}", rep.violations[0].summary); println!("VIOLATION property={} replay={}", prop, path); 1 } else { 0 }
        },
        "altdir" =>
        {
            let mut rep = Report::new(&prop, "quick");
            rep.write_evidence = false;
            alt_directory_probe(&mut rep);
            let sig = v["signature"].as_str().unwrap_or("");
            if rep.violations.iter().any(|x| x.signature == sig) { println!("{}", rep.violations[0].summary); println!("VIOLATION property={} replay={}", prop, path); 1 } else { 0 }
        },
        "unreplayable" =>
        {
            println!("no stand-alone replay exists for this item; what was observed: {}", v["summary"].as_str().unwrap_or(""));
            2
        },
        "hist" =>
        {
            let sc = match scen::by_name(r["scenario"].as_str().unwrap_or(""))
            {
                Some(s) => s,
                None => { eprintln!("unknown scenario"); return 2; },
            };
            let clock = hist::clock_from_str(r["clock"].as_str().unwrap_or("Strict"));
            let paired = r["paired"].as_bool().unwrap_or(false);
            let ops: Vec<Op> = serde_json::from_value(r["ops"].clone()).unwrap_or_default();
            let or = Oracles::only(&prop);
            let (fs, fail, st) = hist::replay_history(&sc, clock, &or, paired, prop == "C10", &ops);
            println!("replayed [{}]", hist::ops_short(&ops));
            println!("final workspace: {:?}", crate::world::workspace_view(&st.fs));
            if let Some(f) = fail
            {
                println!("execution failed: {}", f);
            }
            let mut hit = false;
            for (p, f) in fs
            {
                if f.property == prop
                {
                    hit = true;
                    println!("{} after [{}]: {} — {}", f.property, hist::ops_short(&p), f.what, f.detail);
                }
            }
            if hit
            {
                println!("VIOLATION property={} replay={}", prop, path);
                1
            }
            else
            {
                println!("no violation of {} on this trace", prop);
                0
            }
        },
        "crash" =>
        {
            let rc = crate::crash::replay(r["case"].as_str().unwrap_or(""), r["crash_desc"].as_str().unwrap_or(""), r["what"].as_str().unwrap_or(""));
            if rc == 1 { println!("VIOLATION property={} replay={}", prop, path); }
            else if rc == 0 { println!("no violation of {} at this crash point", prop); }
            rc
        },
        "sched" =>
        {
            let case = match schedeng::case_by_name(r["case"].as_str().unwrap_or(""))
            {
                Some(c) => c,
                None => { eprintln!("unknown case"); return 2; },
            };
            let prep = match schedeng::prepare(&case)
            {
                Ok(p) => p,
                Err(e) =>
                {
                    if r["what"].as_str() == Some("pre-history")
                    {
                        println!("pre-history [{}] of case {} failed on the serial schedule: {}", hist::ops_short(&case.pre), case.name, e);
                        println!("VIOLATION property={} replay={}", prop, path);
                        return 1;
                    }
                    eprintln!("pre-history failed: {}", e);
                    return 2;
                },
            };
            if r["what"].as_str() == Some("pre-history")
            {
                println!("pre-history of case {} ran without failure", case.name);
                return 0;
            }
            let choices: Vec<u8> = serde_json::from_value(r["choices"].clone()).unwrap_or_default();
            let c03 = r["c03"].as_bool().unwrap_or(false);
            let mut or = Oracles::only(&prop);
            if prop == "C05" || prop == "C06" || prop == "C03" { or = Oracles::default(); }
            let (res, o) = schedeng::run_schedule(&case, &prep, &or, c03, choices.clone());
            println!("case {}: [{}] then {} under schedule {:?}", case.name, hist::ops_short(&case.pre), case.op.short(), choices);
            let mut hit = false;
            let key = match &res { Some((k, _)) => k.clone(), None => format!("FAILED: {}", first_line(&o.failure.clone().unwrap_or_default())) };
            println!("outcome: {}", key);
            if let Some((_k, fs)) = &res
            {
                for f in fs
                {
                    if f.property == prop { hit = true; println!("{}: {} — {}", f.property, f.what, f.detail); }
                }
            }
            if prop == "C05" && o.failure.is_some() { hit = true; }
            if prop == "C06"
            {
                let other: Vec<u8> = serde_json::from_value(r["other_choices"].clone()).unwrap_or_default();
                let (res2, o2) = schedeng::run_schedule(&case, &prep, &or, false, other.clone());
                let key2 = match &res2 { Some((k, _)) => k.clone(), None => format!("FAILED: {}", first_line(&o2.failure.clone().unwrap_or_default())) };
                println!("outcome under schedule {:?}: {}", other, key2);
                if key != key2 { hit = true; }
            }
            if hit { println!("VIOLATION property={} replay={}", prop, path); 1 } else { println!("no violation of {} on this schedule", prop); 0 }
        },
        "sort" => { let rc = crate::enum_sort::replay(r); if rc == 1 { println!("VIOLATION property={} replay={}", prop, path); } rc },
        "ident" => { let rc = crate::enum_ident::replay(r); if rc == 1 { println!("VIOLATION property={} replay={}", prop, path); } rc },
        "parse" => { let rc = crate::enum_parse::replay(r); if rc == 1 { println!("VIOLATION property={} replay={}", prop, path); } rc },
        "hash" | "state" =>
        {
            // these engines are deterministic and fast: re-run the family and look for the same signature
            let mut rep = Report::new(&prop, "quick");
            rep.write_evidence = false;
            if prop == "C15" { crate::enum_hash::run(&mut rep, "quick"); } else { crate::enum_state::run(&mut rep, "quick"); }
            let sig = v["signature"].as_str().unwrap_or("");
            if rep.violations.iter().any(|x| x.signature == sig) { println!("{}", v["summary"].as_str().unwrap_or("")); println!("VIOLATION property={} replay={}", prop, path); 1 } else { 0 }
        },
        "realfs" => { let rc = crate::realbin::replay_realfs(r); if rc == 1 { println!("VIOLATION property={} replay={}", prop, path); } rc },
        "serve" => { let rc = crate::realbin::replay_serve(r); if rc == 1 { println!("VIOLATION property={} replay={}", prop, path); } rc },
        other =>
        {
            eprintln!("unknown replay engine {:?}", other);
            2
        },
    }
}

pub fn main() -> i32
{
    let args: Vec<String> = std::env::args().collect();
    if args.len() < 2
    {
        eprintln!("usage: rvf check <ID> [--tier quick|thorough] | rvf replay <file>");
        return 2;
    }
    let mut tier = std::env::var("VERIF_TIER").unwrap_or_else(|_| "quick".to_string());
    let mut i = 2;
    let mut pos = vec![];
    while i < args.len()
    {
        if args[i] == "--tier" && i + 1 < args.len()
        {
            tier = args[i + 1].clone();
            i += 2;
        }
        else
        {
            pos.push(args[i].clone());
            i += 1;
        }
    }
    if tier != "thorough" { tier = "quick".to_string(); }
    match args[1].as_str()
    {
        "check" =>
        {
            if pos.is_empty() { eprintln!("check needs a property id"); return 2; }
            check(&pos[0], &tier)
        },
        "replay" =>
        {
            if pos.is_empty() { eprintln!("replay needs a file"); return 2; }
            replay(&pos[0])
        },
        "setup" =>
        {
            match crate::realbin::build_real_binary()
            {
                Ok(p) => { println!("built {}", p.display()); 0 },
                Err(e) => { eprintln!("machinery error: {}", e); 2 },
            }
        },
        "c16-child" => crate::enum_state::child_main(&tier),
        "dpor-debug" =>
        {
            let case = schedeng::case_by_name(&pos[0]).expect("case");
            let prep = schedeng::prepare(&case).expect("prep");
            schedeng::debug_trace(&case, &prep);
            0
        },
        other =>
        {
            eprintln!("unknown command {}", other);
            2
        },
    }
}
