//! `enum hash` — C15: content hashes are true SHA-256 and the 43-character text form is
//! a bijection.  Exhaustive over finite families chosen at the boundaries the code has
//! (256-byte read buffer, 43-digit padding, 32-byte overflow); the limit is stated in
//! the evidence: all byte strings / all 2^256 values are not enumerable.
use std::collections::{BTreeMap, BTreeSet};
use std::sync::Arc;

use serde_json::{json, Value};

use crate::memsys::{bytes, Cfg, ClockModel, Fs, MemSystem};
use crate::refsha;
use crate::report::{Report, Violation};
use crate::ticket::{Ticket, TicketFactory};

fn fill(pattern: usize, len: usize) -> Vec<u8>
{
    (0..len).map(|i| match pattern
    {
        0 => 0u8,
        1 => (i % 251) as u8,
        _ => ((i * 7 + 13) ^ (i >> 3)) as u8,
    }).collect()
}

struct Bad
{
    map: BTreeMap<String, String>,
}

impl Bad
{
    fn add(&mut self, what: &str, detail: String)
    {
        self.map.entry(what.to_string()).or_insert(detail);
    }
}

/// `Ticket::from_human_readable` under the watchdog
fn fhr(s: &str) -> Result<Ticket, crate::ticket::FromHumanReadableError>
{
    let _w = crate::watch::item(|| (format!("decoding the text {:?} as a hash", s), json!({"engine": "hash"})));
    Ticket::from_human_readable(s)
}

fn ruler_hash_of_file(data: &[u8], chunk: Option<usize>, path: &str, mtime: u64) -> Result<String, String>
{
    let _w = crate::watch::item(|| (format!("hashing a file of {} bytes (at most {:?} bytes per read)", data.len(), chunk), json!({"engine": "hash"})));
    let mut fs = Fs::new();
    fs.put(path, Arc::new(data.to_vec()), mtime, None);
    let mut cfg = Cfg::plain(ClockModel::Strict);
    cfg.read_chunk = chunk;
    let sys = MemSystem::new(fs, cfg);
    let p = path.to_string();
    match std::panic::catch_unwind(move || TicketFactory::from_file(&sys, &p).map(|mut f| f.result().human_readable()))
    {
        Ok(Ok(s)) => Ok(s),
        Ok(Err(e)) => Err(format!("{:?}", e)),
        Err(_) => Err("panic".to_string()),
    }
}

#[derive(Clone, Debug, PartialEq, Eq, PartialOrd, Ord)]
enum Tr
{
    File(Vec<u8>),
    Dir(BTreeMap<String, Tr>),
}

fn put_tree(fs: &mut Fs, prefix: &str, t: &BTreeMap<String, Tr>)
{
    fs.map.insert(prefix.to_string(), crate::memsys::Node::Dir);
    for (k, v) in t
    {
        let p = format!("{}/{}", prefix, k);
        match v
        {
            Tr::File(d) => fs.put(&p, Arc::new(d.clone()), 5, None),
            Tr::Dir(c) => put_tree(fs, &p, c),
        }
    }
}

fn dir_hash(t: &BTreeMap<String, Tr>) -> Result<String, String>
{
    let _w = crate::watch::item(|| (format!("hashing the directory tree {:?}", t), json!({"engine": "hash"})));
    let mut fs = Fs::new();
    put_tree(&mut fs, "root", t);
    let sys = MemSystem::new(fs, Cfg::plain(ClockModel::Strict));
    match std::panic::catch_unwind(move || TicketFactory::from_directory(&sys, "root").map(|mut f| f.result().human_readable()))
    {
        Ok(Ok(s)) => Ok(s),
        Ok(Err(e)) => Err(format!("{:?}", e)),
        Err(_) => Err("panic".to_string()),
    }
}

/// all trees with exactly `n` entries in total and depth <= `depth`, names from `names`, contents from `contents`
fn trees(n: usize, depth: usize, names: &[&str], contents: &[&[u8]]) -> Vec<BTreeMap<String, Tr>>
{
    // forests: choose a first entry (name, kind) and distribute the remaining entries
    fn forests(n: usize, depth: usize, names: &[&str], contents: &[&[u8]], min_name: usize) -> Vec<BTreeMap<String, Tr>>
    {
        if n == 0 { return vec![BTreeMap::new()]; }
        let mut out = vec![];
        for ni in min_name..names.len()
        {
            // a file
            for c in contents
            {
                for rest in forests(n - 1, depth, names, contents, ni + 1)
                {
                    let mut m = rest.clone();
                    m.insert(names[ni].to_string(), Tr::File(c.to_vec()));
                    out.push(m);
                }
            }
            // a directory with k entries inside
            if depth > 1
            {
                for k in 0..n
                {
                    for inner in forests(k, depth - 1, names, contents, 0)
                    {
                        for rest in forests(n - 1 - k, depth, names, contents, ni + 1)
                        {
                            let mut m = rest.clone();
                            m.insert(names[ni].to_string(), Tr::Dir(inner.clone()));
                            out.push(m);
                        }
                    }
                }
            }
        }
        out
    }
    forests(n, depth, names, contents, 0)
}

fn single_point_changes(t: &BTreeMap<String, Tr>, fresh_name: &str, other: &[u8]) -> Vec<BTreeMap<String, Tr>>
{
    let mut out = vec![];
    for (k, v) in t
    {
        // rename this entry
        if !t.contains_key(fresh_name)
        {
            let mut m = t.clone();
            let x = m.remove(k).unwrap();
            m.insert(fresh_name.to_string(), x);
            out.push(m);
        }
        match v
        {
            Tr::File(d) =>
            {
                let mut m = t.clone();
                let mut nd = d.clone();
                if nd == other { nd.push(b'!'); } else { nd = other.to_vec(); }
                m.insert(k.clone(), Tr::File(nd));
                out.push(m);
            },
            Tr::Dir(c) =>
            {
                for ch in single_point_changes(c, fresh_name, other)
                {
                    let mut m = t.clone();
                    m.insert(k.clone(), Tr::Dir(ch));
                    out.push(m);
                }
            },
        }
    }
    out
}

pub fn run(rep: &mut Report, tier: &str)
{
    let thorough = tier == "thorough";
    let mut bad = Bad { map: BTreeMap::new() };
    let mut evals = 0u64;
    let mut distinct_hashes: BTreeSet<String> = BTreeSet::new();

    // 1. files of every length 0..=1100 x 3 fill patterns, short reads included
    let max_len = if thorough { 2200 } else { 1100 };
    let chunks: Vec<Option<usize>> = vec![None, Some(1), Some(255), Some(256), Some(257)];
    for len in 0..=max_len
    {
        for pat in 0..3
        {
            let data = fill(pat, len);
            let want = refsha::encode62(&refsha::sha256(&data));
            distinct_hashes.insert(want.clone());
            for ch in &chunks
            {
                if *ch == Some(1) && len > 600 && !thorough { continue; }
                evals += 1;
                match ruler_hash_of_file(&data, *ch, "f", 7)
                {
                    Ok(got) => if got != want { bad.add("file hash differs from SHA-256 of its bytes", format!("length {} pattern {} read-chunk {:?}: {} vs {}", len, pat, ch, got, want)); },
                    Err(e) => bad.add("hashing a file failed", format!("length {} pattern {} read-chunk {:?}: {}", len, pat, ch, e)),
                }
            }
            // independent of path and age
            if len % 97 == 0
            {
                evals += 1;
                if ruler_hash_of_file(&data, None, "dir/sub/file.bin", 123456789).ok().as_ref() != Some(&want)
                {
                    bad.add("file hash depends on path or modification time", format!("length {}", len));
                }
            }
        }
    }

    // 1b. lengths around larger plausible block sizes (a block-wise reader with a block of 512 .. 64 KiB)
    let mut big_lens: Vec<usize> = vec![];
    for k in [512usize, 1024, 2048, 4096, 8192, 16384, 32768, 65536]
    {
        for d in [-1i64, 0, 1] { big_lens.push((k as i64 + d) as usize); big_lens.push((2 * k as i64 + d) as usize); }
        big_lens.push(k + k / 2);
    }
    big_lens.sort();
    big_lens.dedup();
    for len in &big_lens
    {
        let data = fill(1, *len);
        let want = refsha::encode62(&refsha::sha256(&data));
        distinct_hashes.insert(want.clone());
        for ch in [None, Some(4096usize), Some(4097)]
        {
            evals += 1;
            match ruler_hash_of_file(&data, ch, "big", 7)
            {
                Ok(got) => if got != want { bad.add("file hash differs from SHA-256 of its bytes", format!("length {} read-chunk {:?}: {} vs {}", len, ch, got, want)); },
                Err(e) => bad.add("hashing a file failed", format!("length {} read-chunk {:?}: {}", len, ch, e)),
            }
        }
    }

    // 2. text form: encode -> decode identity and agreement with the independent base-62
    let mut values: Vec<[u8; 32]> = vec![[0u8; 32], [0xff; 32]];
    for pos in 0..32 { for b in [1u8, 0x7f, 0x80, 0xff] { let mut v = [0u8; 32]; v[pos] = b; values.push(v); } }
    for k in 0..=256usize
    {
        // 2^k (k<256) and 2^k - 1, little-endian
        if k < 256 { let mut v = [0u8; 32]; v[k / 8] = 1 << (k % 8); values.push(v); }
        let mut v = [0u8; 32];
        for bit in 0..k { v[bit / 8] |= 1 << (bit % 8); }
        values.push(v);
    }
    // powers of 62 and neighbours (padding boundaries)
    {
        let mut v = [0u8; 40];
        v[0] = 1;
        for _ in 0..43
        {
            let mut x = [0u8; 32];
            x.copy_from_slice(&v[..32]);
            if v[32..].iter().all(|b| *b == 0) { values.push(x); let mut y = x; if y[0] > 0 { y[0] -= 1; values.push(y); } }
            let mut carry = 0u32;
            for limb in v.iter_mut() { let cur = (*limb as u32) * 62 + carry; *limb = cur as u8; carry = cur >> 8; }
        }
    }
    for data in [&b""[..], b"a", b"abc", b"ruler"] { values.push(refsha::sha256(data)); }
    for v in &values
    {
        evals += 1;
        let mine = refsha::encode62(v);
        // ruler's text form of the same 256-bit value: obtained through its deserialiser-free public API
        let t: Ticket = match bincode::deserialize::<Ticket>(v) { Ok(t) => t, Err(_) => { bad.add("cannot build a ticket from 32 bytes", refsha::hex(v)); continue; } };
        let theirs = t.human_readable();
        if theirs.len() != 43 || theirs != mine
        {
            bad.add("text form differs from the independent base-62 encoding", format!("{}: {} vs {}", refsha::hex(v), theirs, mine));
        }
        match fhr(&theirs)
        {
            Ok(back) => if back != t { bad.add("text form does not decode back to the same hash", refsha::hex(v)); },
            Err(e) => bad.add("text form of a valid hash is rejected", format!("{}: {:?}", refsha::hex(v), e)),
        }
    }

    // 3. decode: every (position, digit) single-digit string, incl. the overflow boundary
    let digits = b"0123456789abcdefghijklmnopqrstuvwxyzABCDEFGHIJKLMNOPQRSTUVWXYZ";
    for pos in 0..43
    {
        for d in digits.iter()
        {
            let mut s = vec![b'0'; 43];
            s[pos] = *d;
            let s = String::from_utf8(s).unwrap();
            evals += 1;
            let want = refsha::decode62(&s);
            let got = fhr(&s);
            match (&want, &got)
            {
                (Ok(w), Ok(g)) =>
                {
                    let gb = bincode::serialize(g).unwrap_or_default();
                    if gb != w.to_vec() { bad.add("decoded value differs from the independent decoding", s.clone()); }
                    if g.human_readable() != s { bad.add("decode then encode is not the identity", s.clone()); }
                },
                (Err(_), Err(_)) => {},
                (Ok(_), Err(e)) => bad.add("a valid 43-character encoding is rejected", format!("{} {:?}", s, e)),
                (Err(e), Ok(_)) => bad.add("a string that is not an encoding of a 256-bit value is accepted", format!("{} ({:?})", s, e)),
            }
        }
    }
    // largest value and the strings just above it
    {
        let max = refsha::encode62(&[0xff; 32]);
        evals += 1;
        if fhr(&max).is_err() { bad.add("the encoding of 2^256-1 is rejected", max.clone()); }
        let mut b = max.clone().into_bytes();
        for pos in 0..43
        {
            // increase one digit: value exceeds 2^256-1 unless a lower digit compensates; check with the reference
            for d in digits.iter()
            {
                let old = b[pos];
                b[pos] = *d;
                let s = String::from_utf8(b.clone()).unwrap();
                evals += 1;
                let want = refsha::decode62(&s).is_ok();
                let got = fhr(&s).is_ok();
                if want != got { bad.add(if want { "a valid 43-character encoding is rejected" } else { "a value too large for 256 bits is accepted" }, s.clone()); }
                b[pos] = old;
            }
        }
        let z = "Z".repeat(43);
        if fhr(&z).is_ok() { bad.add("a value too large for 256 bits is accepted", z); }
    }

    // 4. strings that are not encodings: every string of length <= 2 over all bytes, every length 0..60 of '0',
    //    every single-character substitution of a valid tag by a non-alphanumeric
    for a in 0..=255u8
    {
        let s1 = String::from_utf8_lossy(&[a]).to_string();
        evals += 1;
        if fhr(&s1).is_ok() { bad.add("a 1-character string is accepted as a hash", s1.clone()); }
        for b2 in 0..=255u8
        {
            if let Ok(s2) = String::from_utf8(vec![a, b2])
            {
                evals += 1;
                if fhr(&s2).is_ok() { bad.add("a 2-character string is accepted as a hash", s2); }
            }
        }
    }
    for len in 0..=60
    {
        evals += 1;
        let s = "0".repeat(len);
        let ok = fhr(&s).is_ok();
        if ok != (len == 43) { bad.add("wrong-length string accepted or 43 zeros rejected", format!("length {}", len)); }
    }
    {
        let valid = refsha::encode62(&refsha::sha256(b"valid"));
        for pos in 0..43
        {
            let mut foreign: Vec<char> = (0u8..128).map(|b| b as char).filter(|c| !c.is_ascii_alphanumeric()).collect();
            foreign.push('\u{e9}');
            for c in foreign
            {
                let mut s: Vec<char> = valid.chars().collect();
                s[pos] = c;
                let s: String = s.into_iter().collect();
                evals += 1;
                match std::panic::catch_unwind(|| fhr(&s).is_ok())
                {
                    Ok(true) => bad.add("a string with a foreign character is accepted as a hash", s.clone()),
                    Ok(false) => {},
                    Err(_) => bad.add("decoding panicked", s.clone()),
                }
            }
        }
    }

    // 4b. every non-ASCII character of the basic multilingual plane, inside a string of exactly
    //     43 *bytes* (the length test counts bytes), at the first, a middle and the last position
    for cp in 0x80u32..=0xffff
    {
        let c = match char::from_u32(cp) { Some(c) => c, None => continue };
        let fill = 43 - c.len_utf8();
        for pos in [0usize, fill / 2, fill]
        {
            let mut st = String::new();
            st.push_str(&"0".repeat(pos));
            st.push(c);
            st.push_str(&"1".repeat(fill - pos));
            evals += 1;
            match std::panic::catch_unwind(|| fhr(&st).is_ok())
            {
                Ok(true) => bad.add("a string with a foreign character is accepted as a hash", format!("U+{:04X} at byte {}", cp, pos)),
                Ok(false) => {},
                Err(_) => bad.add("decoding panicked", format!("U+{:04X}", cp)),
            }
        }
    }

    // 5. directory hashes: every tree shape with <= 3 entries and depth <= 2 x every single-point change
    let names = ["a", "b", "c"];
    let contents: [&[u8]; 2] = [b"x", b"y"];
    let mut tree_count = 0u64;
    let mut change_count = 0u64;
    for n in 1..=(if thorough { 4 } else { 3 })
    {
        for t in trees(n, 2, &names, &contents)
        {
            tree_count += 1;
            let h = match dir_hash(&t) { Ok(h) => h, Err(e) => { bad.add("hashing a directory failed", format!("{:?}: {}", t, e)); continue; } };
            evals += 1;
            for ch in single_point_changes(&t, "zz", b"y")
            {
                change_count += 1;
                evals += 1;
                match dir_hash(&ch)
                {
                    Ok(h2) => if h2 == h { bad.add("directory hash unchanged after a contained name or content changed", format!("{:?} vs {:?}", t, ch)); },
                    Err(e) => bad.add("hashing a directory failed", format!("{:?}: {}", ch, e)),
                }
            }
        }
    }

    // 6. the same through the command line of the real binary (`ruler hash <path>`, RealSystem)
    match crate::realbin::hash_cli_family()
    {
        Ok((n, findings)) =>
        {
            evals += n;
            rep.set("ruler_hash_cli_invocations", json!(n));
            for (what, detail) in findings { bad.add(&what, detail); }
        },
        Err(e) => rep.machinery(e),
    }

    rep.set("evaluations", json!(evals));
    rep.set("states", json!(distinct_hashes.len() + values.len()));
    rep.set("transitions", json!(evals));
    rep.set("traces_validated_against_impl", json!(evals));
    rep.set("distinct_nontrivial", json!(distinct_hashes.len()));
    rep.set("file_lengths", json!(format!("0..={} x 3 fill patterns x read-chunk sizes {:?}; plus {} lengths around 512..128Ki block boundaries", max_len, chunks, big_lens.len())));
    rep.set("values_for_text_form", json!(values.len()));
    rep.set("directory_trees", json!(tree_count));
    rep.set("directory_single_point_changes", json!(change_count));
    rep.set("exhaustive", json!(true));
    rep.set("rule", json!("exhaustive over the listed finite families only; SHA-256 equality for all byte strings and the bijection for all 2^256 values are not enumerable"));
    rep.push_sample(json!({"file_length": 256, "pattern": "i mod 251", "read_chunk": 255}));
    rep.push_sample(json!({"encoding": refsha::encode62(&[0xff; 32]), "meaning": "2^256-1, the largest accepted value"}));
    for (what, detail) in bad.map
    {
        rep.violation(Violation
        {
            property: "C15".into(),
            signature: format!("C15:hash:{}", what),
            summary: format!("{}: {}", what, detail),
            replay: json!({"engine": "hash", "what": what, "detail": detail}),
        });
    }
}
