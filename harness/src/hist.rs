//! `hist` — explicit-state search over operation histories (DESIGN 4.1).
//!
//! States are whole workspaces (MemSystem snapshots + ghost record); transitions are
//! user actions, each `build` / `clean` transition runs the *real* ruler code under
//! the serial schedule.  Breadth-first, level-synchronous, deduplicated on the
//! canonical key of `world::canon_key`.
use std::collections::{BTreeMap, BTreeSet, HashMap, HashSet};
use std::sync::atomic::{AtomicBool, AtomicUsize, Ordering};
use std::sync::{Arc, Mutex};
use std::time::{Duration, Instant};

use serde::{Deserialize, Serialize};
use serde_json::{json, Value};

use crate::memsys::{bytes, Bytes, ClockModel, Fs, Log, MutKind, Node};
use crate::model::*;
use crate::refsha;
use crate::report::{Report, Violation};
use crate::sched::{self, Job, Outcome};
use crate::world::*;

// ---------------------------------------------------------------------------
// Scenario description

#[derive(Clone, Debug, Default)]
pub struct OpKinds
{
    pub edit: bool,
    pub build: bool,
    pub clean: bool,
    pub tamper: bool,
    pub delete: bool,
    pub drop_cache: bool,
    pub rm_ruler: bool,
    pub rm_history: bool,
    pub rm_cache: bool,
    pub rm_table: bool,
    pub rules: bool,
    pub rm_leaf: bool,
    /// replace an editable file by a version with an OLD modification time (restored from a backup)
    pub backdate: bool,
    /// move a target aside (`mv t t.aside`) and, later, back (`mv t.aside t`): the file returns with
    /// its old modification time over whatever stands at the path by then
    pub aside: bool,
}

impl OpKinds
{
    pub fn basic() -> OpKinds
    {
        OpKinds { edit: true, build: true, clean: true, ..Default::default() }
    }

    pub fn all() -> OpKinds
    {
        OpKinds { edit: true, build: true, clean: true, tamper: true, delete: true, drop_cache: true, rm_ruler: true,
            rm_history: true, rm_cache: true, rm_table: true, rules: true, rm_leaf: false, backdate: false, aside: false }
    }
}

#[derive(Clone, Debug)]
pub struct Scenario
{
    pub name: String,
    pub variants: Vec<RuleSet>,
    /// editable files (leaves and undeclared inputs) with their value domains; initial = value 0
    pub edits: Vec<(String, Vec<Bytes>)>,
    pub goals: Vec<Option<String>>,
    /// targets the user may tamper with / delete
    pub tamper: Vec<String>,
    pub ops: OpKinds,
    /// scenario contains rules that are not functions of their declared sources (C17 only)
    pub nondeterministic: bool,
    /// variants whose rules file spells `dir/file` paths flat instead of as a bundle
    pub flat_variants: Vec<usize>,
}

#[derive(Clone, Debug, PartialEq, Eq, Serialize, Deserialize)]
pub enum Op
{
    Edit { path: String, val: usize },
    Build { goal: Option<String> },
    Clean { goal: Option<String> },
    Tamper { path: String },
    Delete { path: String },
    DropCache { name: String },
    RmRuler,
    RmHistory,
    RmCache,
    RmTable,
    Rules { k: usize },
    RmLeaf { path: String },
    Backdate { path: String, val: usize },
    /// the user (or a disk fault) damages the history file of the rule producing `target`
    CorruptHistory { target: String },
    CorruptTable,
    SetAside { path: String },
    MoveBack { path: String },
}

impl Op
{
    pub fn short(&self) -> String
    {
        match self
        {
            Op::Edit { path, val } => format!("edit({},{})", path, val),
            Op::Build { goal } => format!("build({})", goal.clone().unwrap_or_default()),
            Op::Clean { goal } => format!("clean({})", goal.clone().unwrap_or_default()),
            Op::Tamper { path } => format!("tamper({})", path),
            Op::Delete { path } => format!("delete({})", path),
            Op::DropCache { name } => format!("drop_cache({})", &name[..6.min(name.len())]),
            Op::RmRuler => "rm(.ruler)".to_string(),
            Op::RmHistory => "rm(.ruler/history)".to_string(),
            Op::RmCache => "rm(.ruler/cache)".to_string(),
            Op::RmTable => "rm(.ruler/current_file_states)".to_string(),
            Op::Rules { k } => format!("rules({})", k),
            Op::RmLeaf { path } => format!("rm_leaf({})", path),
            Op::Backdate { path, val } => format!("restore_old({},{})", path, val),
            Op::CorruptHistory { target } => format!("damage_history_of({})", target),
            Op::CorruptTable => "damage(current_file_states)".to_string(),
            Op::SetAside { path } => format!("mv({0},{0}.aside)", path),
            Op::MoveBack { path } => format!("mv({0}.aside,{0})", path),
        }
    }
}

pub fn ops_short(ops: &[Op]) -> String
{
    ops.iter().map(|o| o.short()).collect::<Vec<_>>().join(" ; ")
}

pub const TAMPER_CONTENT: &str = "#tampered";

// ---------------------------------------------------------------------------
// Search state

type GhostKey = (String, Vec<Bytes>);

#[derive(Clone)]
pub struct State
{
    pub fs: Fs,
    /// second world for the paired search (C18): same ops, table erased before every build
    pub fs_b: Option<Fs>,
    pub variant: usize,
    /// (rule identity, source contents in sorted-source order) -> outputs in sorted-target order,
    /// for every command execution the harness saw succeed since the history last went away
    pub ghost: BTreeMap<GhostKey, Vec<Bytes>>,
    pub path: Vec<Op>,
}

fn ghost_digest(g: &BTreeMap<GhostKey, Vec<Bytes>>) -> Vec<u8>
{
    let mut h = refsha::Sha256::new();
    for ((id, srcs), outs) in g
    {
        h.update(id.as_bytes());
        h.update(b"|");
        for s in srcs { h.update(&(s.len() as u32).to_le_bytes()); h.update(s); }
        h.update(b"|");
        for s in outs { h.update(&(s.len() as u32).to_le_bytes()); h.update(s); }
        h.update(b";");
    }
    h.finish().to_vec()
}

/// rank of every file's mtime (and of every remembered timestamp) in the order of all
/// timestamps: needed in the key when timestamps can go backwards (backdated files), because
/// then a mutant that compares timestamps with < or <= can tell apart states that the
/// equality-only partition merges
pub fn order_signature(fs: &Fs) -> Vec<u8>
{
    let table = decode_table(fs);
    let mut stamps: BTreeSet<u64> = BTreeSet::new();
    for (p, n) in fs.map.iter() { if crate::world::is_state_file(p) { continue; } if let Node::File(f) = n { stamps.insert(crate::memsys::stamp_micros(f.mtime)); } }
    if let Some(Some(t)) = &table { for (_p, st) in t.iter() { stamps.insert(st.timestamp); } }
    let rank: BTreeMap<u64, u32> = stamps.iter().enumerate().map(|(i, x)| (*x, i as u32)).collect();
    let mut out = vec![];
    for (p, n) in fs.map.iter() { if crate::world::is_state_file(p) { continue; } if let Node::File(f) = n { out.extend_from_slice(p.as_bytes()); out.extend_from_slice(&rank[&crate::memsys::stamp_micros(f.mtime)].to_le_bytes()); } }
    if let Some(Some(t)) = &table { for (p, st) in t.iter() { out.extend_from_slice(p.as_bytes()); out.extend_from_slice(&rank[&st.timestamp].to_le_bytes()); } }
    out
}

impl State
{
    pub fn key_ordered(&self, use_ghost: bool, ordered: bool) -> [u8; 16]
    {
        if !ordered { return self.key(use_ghost); }
        let mut extra = vec![self.variant as u8];
        if use_ghost { extra.extend_from_slice(&ghost_digest(&self.ghost)); }
        extra.extend_from_slice(&order_signature(&self.fs));
        if let Some(b) = &self.fs_b { extra.extend_from_slice(&canon_key(b, &order_signature(b))); }
        canon_key(&self.fs, &extra)
    }

    pub fn key(&self, use_ghost: bool) -> [u8; 16]
    {
        let mut extra = vec![self.variant as u8];
        if use_ghost
        {
            extra.extend_from_slice(&ghost_digest(&self.ghost));
        }
        if let Some(b) = &self.fs_b
        {
            extra.extend_from_slice(&canon_key(b, &[]));
        }
        canon_key(&self.fs, &extra)
    }
}

pub fn initial_state(sc: &Scenario, paired: bool) -> State
{
    let mut fs = Fs::new();
    for (p, dom) in &sc.edits
    {
        user_write(&mut fs, p, dom[0].clone());
    }
    install_rules_spelled(&mut fs, &sc.variants[0], sc.flat_variants.contains(&0));
    State { fs_b: if paired { Some(fs.clone()) } else { None }, fs, variant: 0, ghost: BTreeMap::new(), path: vec![] }
}

pub fn enabled_ops(sc: &Scenario, st: &State) -> Vec<Op>
{
    let mut out = vec![];
    let k = &sc.ops;
    if k.edit
    {
        for (p, dom) in &sc.edits
        {
            let cur = st.fs.read(p);
            for (i, v) in dom.iter().enumerate()
            {
                if cur.as_ref() != Some(v)
                {
                    out.push(Op::Edit { path: p.clone(), val: i });
                }
            }
        }
    }
    if k.build
    {
        for g in &sc.goals { out.push(Op::Build { goal: g.clone() }); }
    }
    if k.clean
    {
        for g in &sc.goals { out.push(Op::Clean { goal: g.clone() }); }
    }
    if k.tamper
    {
        for t in &sc.tamper
        {
            if st.fs.read(t).map(|b| &b[..] != TAMPER_CONTENT.as_bytes()).unwrap_or(true)
            {
                out.push(Op::Tamper { path: t.clone() });
            }
        }
    }
    if k.delete
    {
        for t in &sc.tamper
        {
            if st.fs.is_file(t) { out.push(Op::Delete { path: t.clone() }); }
        }
    }
    if k.drop_cache
    {
        for (name, _) in cache_listing(&st.fs)
        {
            out.push(Op::DropCache { name });
        }
    }
    if k.rm_ruler && st.fs.is_dir(RULER_DIR) { out.push(Op::RmRuler); }
    if k.rm_history && st.fs.is_dir(HISTORY_DIR) { out.push(Op::RmHistory); }
    if k.rm_cache && st.fs.is_dir(CACHE_DIR) { out.push(Op::RmCache); }
    if k.rm_table && st.fs.is_file(TABLE_FILE) { out.push(Op::RmTable); }
    if k.rules
    {
        for i in 0..sc.variants.len()
        {
            if i != st.variant { out.push(Op::Rules { k: i }); }
        }
    }
    if k.rm_leaf
    {
        for (p, _) in &sc.edits
        {
            if st.fs.is_file(p) { out.push(Op::RmLeaf { path: p.clone() }); }
        }
    }
    if k.aside
    {
        for t in &sc.tamper
        {
            let a = format!("{}.aside", t);
            if st.fs.is_file(t) && !st.fs.is_file(&a) { out.push(Op::SetAside { path: t.clone() }); }
            if st.fs.is_file(&a) { out.push(Op::MoveBack { path: t.clone() }); }
        }
    }
    if k.backdate
    {
        for (p, dom) in &sc.edits
        {
            let cur = st.fs.read(p);
            for (i, v) in dom.iter().enumerate()
            {
                if cur.as_ref() != Some(v) { out.push(Op::Backdate { path: p.clone(), val: i }); }
            }
        }
    }
    out
}

// ---------------------------------------------------------------------------
// Oracles

#[derive(Clone, Debug, Default)]
pub struct Oracles
{
    pub c01: bool,
    pub c02: bool,
    pub c04: bool,
    pub c07: bool,
    pub c08: bool,
    pub c09: bool,
    pub c10: bool,
    pub c17: bool,
    pub c18: bool,
    pub c20: bool,
}

impl Oracles
{
    pub fn only(id: &str) -> Oracles
    {
        let mut o = Oracles::default();
        match id
        {
            "C01" => o.c01 = true,
            "C02" => o.c02 = true,
            "C04" => o.c04 = true,
            "C07" => o.c07 = true,
            "C08" => o.c08 = true,
            "C09" => o.c09 = true,
            "C10" => o.c10 = true,
            "C17" => o.c17 = true,
            "C18" => o.c18 = true,
            "C20" => o.c20 = true,
            _ => {},
        }
        o
    }
}

#[derive(Clone, Debug)]
pub struct Finding
{
    pub property: &'static str,
    /// short, specific, history-independent description of what failed (goes into the signature)
    pub what: String,
    pub detail: String,
}

#[derive(Default, Clone, Debug)]
pub struct Stats
{
    pub transitions: u64,
    pub builds: u64,
    pub cleans: u64,
    pub probes: u64,
    pub commands: u64,
    pub obligations: u64,
    pub nontrivial: u64,
    pub verdicts: BTreeMap<String, u64>,
    pub banners: BTreeMap<String, u64>,
}

impl Stats
{
    fn merge(&mut self, o: &Stats)
    {
        self.transitions += o.transitions;
        self.builds += o.builds;
        self.cleans += o.cleans;
        self.probes += o.probes;
        self.commands += o.commands;
        self.obligations += o.obligations;
        self.nontrivial += o.nontrivial;
        for (k, v) in &o.verdicts { *self.verdicts.entry(k.clone()).or_insert(0) += v; }
        for (k, v) in &o.banners { *self.banners.entry(k.clone()).or_insert(0) += v; }
    }
}

fn verdict_class(v: &Verdict) -> String
{
    match v
    {
        Verdict::Ok => "Ok".to_string(),
        Verdict::WorkErrors(es) => format!("WorkErrors[{}]", es.iter().map(|e| match e
        {
            WErr::FileNotFound(_) => "FileNotFound",
            WErr::TargetFileNotGenerated(_) => "TargetFileNotGenerated",
            WErr::CommandExecutedButErrored => "CommandExecutedButErrored",
            WErr::Contradiction(_) => "Contradiction",
            WErr::Other(_) => "Other",
        }).collect::<Vec<_>>().join(",")),
        Verdict::Other(s) => format!("Other({})", s.split(|c: char| !c.is_alphanumeric()).next().unwrap_or("")),
    }
}

pub fn expected_verdict(rules: &RuleSet, fs: &Fs, goal: &Option<String>) -> Option<(Verdict, BTreeSet<usize>, Eval)>
{
    let g = Graph::new(rules);
    let scope = g.scope(goal)?;
    let ev = eval(rules, fs);
    let mut errs = vec![];
    for l in g.scope_leaves(&scope)
    {
        if ev.missing_leaves.contains(&l)
        {
            errs.push(WErr::FileNotFound(l));
        }
    }
    for r in &scope
    {
        match &ev.status[*r]
        {
            RuleStatus::CommandErrored => errs.push(WErr::CommandExecutedButErrored),
            RuleStatus::NotGenerated(t) => errs.push(WErr::TargetFileNotGenerated(t.clone())),
            _ => {},
        }
    }
    errs.sort();
    let v = if errs.is_empty() { Verdict::Ok } else { Verdict::WorkErrors(errs) };
    Some((v, scope, ev))
}

fn rule_by_script<'a>(rules: &'a RuleSet, script: &str) -> Option<usize>
{
    rules.iter().position(|r| r.script_text() == script)
}

fn outside_ruler_muts(log: &Log) -> Vec<String>
{
    log.muts.iter().filter(|m| m.ok).filter_map(|m|
    {
        let mut ps = vec![m.path.clone()];
        if let MutKind::Rename { to, .. } = &m.kind { ps.push(to.clone()); }
        let outside: Vec<String> = ps.into_iter().filter(|p| !(p == RULER_DIR || p.starts_with(".ruler/"))).collect();
        if outside.is_empty() { None } else { Some(format!("{:?} {}", kind_name(&m.kind), outside.join(","))) }
    }).collect()
}

fn kind_name(k: &MutKind) -> &'static str
{
    match k
    {
        MutKind::CreateFile { .. } => "create_file",
        MutKind::Write { .. } => "write",
        MutKind::Rename { .. } => "rename",
        MutKind::SetExec(_) => "set_is_executable",
        MutKind::CreateDir => "create_dir",
        MutKind::Remove { .. } => "remove",
    }
}

/// Everything the oracles need about one build transition.
pub struct BuildObs<'a>
{
    pub sc: &'a Scenario,
    pub rules: &'a RuleSet,
    pub pre: &'a Fs,
    pub goal: &'a Option<String>,
    pub rr: &'a RunResult,
    pub ghost: &'a BTreeMap<GhostKey, Vec<Bytes>>,
}

/// A target claimed by two rules (a rule given twice included) makes the rule set invalid: ruler must
/// refuse it and leave the workspace alone.
pub fn repeated_target(rules: &RuleSet) -> Option<String>
{
    let mut seen = BTreeSet::new();
    for r in rules { for t in r.sorted_targets() { if !seen.insert(t.clone()) { return Some(t); } } }
    None
}

fn check_invalid_rules(opname: &str, t: &str, rr: &RunResult, or: &Oracles, stats: &mut Stats, out: &mut Vec<Finding>)
{
    stats.obligations += 1;
    stats.nontrivial += 1;
    if or.c04 && !matches!(&rr.verdict, Verdict::Other(s) if s.contains("TargetInMultipleRules"))
    {
        out.push(Finding { property: "C04", what: format!("{}: a rule set in which two rules claim one target is not refused", opname), detail: format!("target {}, verdict {:?}", t, rr.verdict) });
    }
    if or.c09
    {
        let m = outside_ruler_muts(&rr.log);
        if !m.is_empty()
        {
            out.push(Finding { property: "C09", what: format!("{}: mutation outside .ruler although the rule set is refused (two rules claim one target)", opname), detail: m.join("; ") });
        }
    }
    if (or.c02 || or.c04 || or.c09) && !rr.log.cmds.is_empty()
    {
        let p = if or.c09 { "C09" } else if or.c04 { "C04" } else { "C02" };
        out.push(Finding { property: p, what: format!("{}: a command ran although the rule set is refused (two rules claim one target)", opname), detail: rr.log.cmds[0].script.clone() });
    }
}

pub fn check_build(o: &BuildObs, or: &Oracles, stats: &mut Stats, out: &mut Vec<Finding>)
{
    if let Some(t) = repeated_target(o.rules)
    {
        check_invalid_rules("build", &t, o.rr, or, stats, out);
        return;
    }
    let g = Graph::new(o.rules);
    let exp = expected_verdict(o.rules, o.pre, o.goal);
    let post = &o.rr.fs;
    let ran: Vec<Option<usize>> = o.rr.log.cmds.iter().map(|c| rule_by_script(o.rules, &c.script)).collect();
    stats.commands += o.rr.log.cmds.len() as u64;

    let (exp_verdict, scope, ev) = match exp
    {
        Some(x) => x,
        None =>
        {
            // the goal is not a target of the current rules: ruler must refuse and touch nothing
            if or.c04
            {
                if !matches!(&o.rr.verdict, Verdict::Other(s) if s.contains("TargetMissing"))
                {
                    out.push(Finding { property: "C04", what: "absent goal not refused".into(), detail: format!("verdict {:?}", o.rr.verdict) });
                }
            }
            if or.c09
            {
                let m = outside_ruler_muts(&o.rr.log);
                if !m.is_empty()
                {
                    out.push(Finding { property: "C09", what: "mutation outside .ruler for an absent goal".into(), detail: m.join("; ") });
                }
            }
            return;
        },
    };
    let in_scope_targets = g.scope_targets(&scope);

    if or.c01 && o.rr.verdict == Verdict::Ok && !o.sc.nondeterministic
    {
        stats.obligations += 1;
        for r in &scope
        {
            for t in o.rules[*r].sorted_targets()
            {
                let want = ev.values.get(&t).map(|v| v.0.clone());
                let got = post.read(&t);
                match (&want, &got)
                {
                    (Some(w), Some(gt)) if w == gt => {},
                    _ =>
                    {
                        out.push(Finding
                        {
                            property: "C01",
                            what: format!("build({}) reports success but target {} is stale/wrong", o.goal.clone().unwrap_or_default(), t),
                            detail: format!("target {}: expected {:?} got {:?}", t, want.as_ref().map(show), got.as_ref().map(show)),
                        });
                    },
                }
            }
        }
    }

    if or.c04 && !o.sc.nondeterministic
    {
        stats.obligations += 1;
        if o.rr.verdict != exp_verdict
        {
            out.push(Finding
            {
                property: "C04",
                what: format!("verdict {} where {} is expected", verdict_class(&o.rr.verdict), verdict_class(&exp_verdict)),
                detail: format!("got {:?}, expected {:?}", o.rr.verdict, exp_verdict),
            });
        }
        for r in &scope
        {
            let script = o.rules[*r].script_text();
            let n = o.rr.log.cmds.iter().filter(|c| c.script == script).count();
            match &ev.status[*r]
            {
                RuleStatus::Cancelled =>
                {
                    if n > 0
                    {
                        out.push(Finding { property: "C04", what: format!("command of cancelled rule {:?} ran", o.rules[*r].targets), detail: script.clone() });
                    }
                },
                RuleStatus::CommandErrored | RuleStatus::NotGenerated(_) =>
                {
                    if n != 1
                    {
                        out.push(Finding { property: "C04", what: format!("failing rule {:?} was run {} times (failure remembered or repeated)", o.rules[*r].targets, n), detail: script.clone() });
                    }
                },
                RuleStatus::Ok =>
                {
                    // independent or upstream rules are brought up to date regardless of failures elsewhere
                    for t in o.rules[*r].sorted_targets()
                    {
                        let want = ev.values.get(&t).map(|v| v.0.clone());
                        let got = post.read(&t);
                        if want != got
                        {
                            out.push(Finding
                            {
                                property: "C04",
                                what: format!("rule {:?} not brought up to date (verdict class {})", o.rules[*r].targets, verdict_class(&o.rr.verdict)),
                                detail: format!("target {}: expected {:?} got {:?}", t, want.as_ref().map(show), got.as_ref().map(show)),
                            });
                        }
                    }
                },
            }
        }
        // "naming the missing file or ungenerated target": the text the user reads must contain the path
        if let Verdict::WorkErrors(es) = &exp_verdict
        {
            if o.rr.verdict == exp_verdict
            {
                for e in es
                {
                    let p = match e { WErr::FileNotFound(p) | WErr::TargetFileNotGenerated(p) => p, _ => continue };
                    if !o.rr.error_text.contains(p.as_str())
                    {
                        out.push(Finding { property: "C04", what: "the error message does not name the missing file or ungenerated target".into(), detail: format!("{:?} not in {:?}", p, o.rr.error_text) });
                    }
                }
            }
        }
        if exp_verdict != Verdict::Ok { stats.nontrivial += 1; }
    }

    if or.c02 && !o.sc.nondeterministic
    {
        // at most once per build
        for (i, c) in o.rr.log.cmds.iter().enumerate()
        {
            if o.rr.log.cmds[..i].iter().any(|d| d.script == c.script)
            {
                out.push(Finding { property: "C02", what: "a rule's command ran twice in one build".into(), detail: c.script.clone() });
            }
        }
        // must-not-run obligations
        let pre_cache: BTreeSet<Bytes> = cache_listing(o.pre).into_iter().map(|(_n, b)| b).collect();
        let mut candidates = vec![];
        let mut need_count: BTreeMap<Bytes, usize> = BTreeMap::new();
        for r in &scope
        {
            let rule = &o.rules[*r];
            if ev.status[*r] == RuleStatus::Cancelled { continue; }
            let srcs: Option<Vec<Bytes>> = rule.sorted_sources().iter().map(|s| post.read(s)).collect();
            let srcs = match srcs { Some(s) => s, None => continue };
            if let Some(outs) = o.ghost.get(&(rule.identity(), srcs))
            {
                let mut needs = vec![];
                for (i, t) in rule.sorted_targets().iter().enumerate()
                {
                    if o.pre.read(t).as_ref() != Some(&outs[i])
                    {
                        needs.push(outs[i].clone());
                        *need_count.entry(outs[i].clone()).or_insert(0) += 1;
                    }
                }
                candidates.push((*r, needs));
            }
        }
        for (r, needs) in candidates
        {
            let available = needs.iter().all(|n| pre_cache.contains(n));
            let contended = needs.iter().any(|n| need_count[n] > 1);
            if available && !contended
            {
                stats.obligations += 1;
                if !needs.is_empty() { stats.nontrivial += 1; }
                let script = o.rules[r].script_text();
                if o.rr.log.cmds.iter().any(|c| c.script == script)
                {
                    out.push(Finding
                    {
                        property: "C02",
                        what: format!("rule {:?} re-ran although it was built before on identical sources and its outputs were {}",
                            o.rules[r].targets, if needs.is_empty() { "in place" } else { "recoverable from the cache" }),
                        detail: format!("command {:?}; needed from cache: {:?}", script, needs.iter().map(show).collect::<Vec<_>>()),
                    });
                }
            }
        }
    }

    if or.c07
    {
        stats.obligations += 1;
        for b in cache_audit(post)
        {
            out.push(Finding { property: "C07", what: "cache entry not named after its content (after build)".into(), detail: b });
        }
    }

    if or.c08
    {
        check_c08(o.sc, o.pre, post, &o.rr.log, "build", stats, out);
    }

    if or.c09
    {
        check_c09(o.pre, post, &o.rr.log, &in_scope_targets, "build", stats, out);
    }

    if or.c20 && !o.sc.nondeterministic
    {
        stats.obligations += 1;
        let mut banners: BTreeMap<String, Vec<String>> = BTreeMap::new();
        for p in &o.rr.prints
        {
            if let PrintRec::Banner(text, path) = p
            {
                banners.entry(path.clone()).or_insert_with(Vec::new).push(text.clone());
                *stats.banners.entry(text.clone()).or_insert(0) += 1;
            }
        }
        for (path, _) in banners.iter()
        {
            if !in_scope_targets.contains(path)
            {
                out.push(Finding { property: "C20", what: "status line for a path that is not an in-scope target".into(), detail: path.clone() });
            }
        }
        for r in &scope
        {
            let rule = &o.rules[*r];
            let script = rule.script_text();
            let cmd_ran = o.rr.log.cmds.iter().any(|c| c.script == script);
            for t in rule.sorted_targets()
            {
                let got = banners.get(&t).cloned().unwrap_or_default();
                if ev.status[*r] != RuleStatus::Ok
                {
                    if !got.is_empty()
                    {
                        out.push(Finding { property: "C20", what: format!("success status {:?} for a target of a failed or cancelled rule", got), detail: t.clone() });
                    }
                    continue;
                }
                // "recovered" = ruler itself (not a command) put a file at the target path: by a rename onto it
                // (what it does today) or by creating / writing it (a copy-based restore would be as good)
                let restored = o.rr.log.muts.iter().any(|m| m.ok && !m.in_cmd && (matches!(&m.kind, MutKind::Rename { to, .. } if *to == t)
                    || (m.path == t && matches!(&m.kind, MutKind::CreateFile { .. } | MutKind::Write { .. }))));
                let touched = o.rr.log.muts.iter().any(|m| m.ok && (m.path == t || matches!(&m.kind, MutKind::Rename { to, .. } if *to == t)));
                let want = if cmd_ran { "Built" } else if restored { "Recovered" } else if !touched { "Up-to-date" } else { "?" };
                if got.len() != 1 || (want != "?" && got[0] != want)
                {
                    out.push(Finding
                    {
                        property: "C20",
                        what: format!("status {:?} reported where exactly one {:?} is the truth", got, want),
                        detail: format!("target {} (command ran: {}, moved in from cache: {}, touched: {})", t, cmd_ran, restored, touched),
                    });
                }
            }
        }
        // each failure reported once is the C04 verdict comparison (multiset of errors)
        if o.rr.verdict != exp_verdict
        {
            if let (Verdict::WorkErrors(a), Verdict::WorkErrors(b)) = (&o.rr.verdict, &exp_verdict)
            {
                if a.len() != b.len()
                {
                    out.push(Finding { property: "C20", what: "number of reported failures differs from number of failures".into(), detail: format!("{:?} vs {:?}", a, b) });
                }
            }
        }
    }
    let _ = ran;
}

pub fn check_c08(sc: &Scenario, pre: &Fs, post: &Fs, log: &Log, opname: &str, stats: &mut Stats, out: &mut Vec<Finding>)
{
    stats.obligations += 1;
    let paths = all_declared_targets(&sc.variants);
    let before = content_set(pre, &paths);
    let after = content_set(post, &paths);
    for b in before.difference(&after)
    {
        out.push(Finding
        {
            property: "C08",
            what: format!("content present before {} is neither at a target path nor in the cache afterwards", opname),
            detail: format!("lost content {:?}", show(b)),
        });
    }
    for m in log.muts.iter().filter(|m| m.ok && !m.in_cmd)
    {
        match &m.kind
        {
            MutKind::Rename { to, moved, dest_prev } =>
            {
                if let Some(prev) = dest_prev
                {
                    if moved.as_ref() != Some(prev) && (paths.contains(to) || to.starts_with(".ruler/cache/")) && !after.contains(prev)
                    {
                        out.push(Finding
                        {
                            property: "C08",
                            what: format!("ruler renamed over different content during {}", opname),
                            detail: format!("rename {} -> {} overwrote {:?}", m.path, to, show(prev)),
                        });
                    }
                }
            },
            MutKind::CreateFile { prev: Some(prev) } =>
            {
                if (paths.contains(&m.path) || m.path.starts_with(".ruler/cache/")) && !after.contains(prev)
                {
                    out.push(Finding
                    {
                        property: "C08",
                        what: format!("ruler truncated an existing file during {}", opname),
                        detail: format!("create_file {} destroyed {:?}", m.path, show(prev)),
                    });
                }
            },
            MutKind::Remove { prev: Some(prev) } =>
            {
                // removing one of its own temporary or state files loses no content of a target or of the cache
                if (paths.contains(&m.path) || m.path.starts_with(".ruler/cache/")) && !after.contains(prev)
                {
                    out.push(Finding { property: "C08", what: format!("ruler removed a file during {}", opname), detail: format!("{} {:?}", m.path, show(prev)) });
                }
            },
            _ => {},
        }
    }
}

pub fn check_c09(pre: &Fs, post: &Fs, log: &Log, in_scope_targets: &BTreeSet<String>, opname: &str, stats: &mut Stats, out: &mut Vec<Finding>)
{
    stats.obligations += 1;
    let allowed = |p: &str| p == RULER_DIR || p.starts_with(".ruler/") || in_scope_targets.contains(p);
    for m in log.muts.iter().filter(|m| !m.in_cmd)
    {
        let mut ps = vec![m.path.clone()];
        if let MutKind::Rename { to, .. } = &m.kind { ps.push(to.clone()); }
        for p in ps
        {
            if !allowed(&p)
            {
                out.push(Finding
                {
                    property: "C09",
                    what: format!("{}: ruler itself issued {} on a path that is neither an in-scope target nor inside .ruler", opname, kind_name(&m.kind)),
                    detail: format!("path {} (mutation path {})", p, m.path),
                });
            }
        }
    }
    // snapshot comparison of everything else
    let mut all: BTreeSet<&String> = pre.map.keys().collect();
    all.extend(post.map.keys());
    for p in all
    {
        if allowed(p) { continue; }
        let a = pre.map.get(p);
        let b = post.map.get(p);
        let same = match (a, b)
        {
            (Some(Node::Dir), Some(Node::Dir)) => true,
            (Some(Node::File(x)), Some(Node::File(y))) => x.data == y.data && x.mtime == y.mtime && x.exec == y.exec,
            (None, None) => true,
            _ => false,
        };
        if !same
        {
            out.push(Finding
            {
                property: "C09",
                what: format!("{}: a file outside the scope changed (content, mtime or permissions)", opname),
                detail: format!("path {}", p),
            });
        }
    }
}

pub struct CleanObs<'a>
{
    pub sc: &'a Scenario,
    pub rules: &'a RuleSet,
    pub pre: &'a Fs,
    pub goal: &'a Option<String>,
    pub rr: &'a RunResult,
}

pub fn check_clean(o: &CleanObs, or: &Oracles, stats: &mut Stats, out: &mut Vec<Finding>)
{
    if let Some(t) = repeated_target(o.rules)
    {
        check_invalid_rules("clean", &t, o.rr, or, stats, out);
        return;
    }
    let g = Graph::new(o.rules);
    let post = &o.rr.fs;
    let scope = match g.scope(o.goal)
    {
        Some(s) => s,
        None =>
        {
            if or.c09
            {
                let m = outside_ruler_muts(&o.rr.log);
                if !m.is_empty()
                {
                    out.push(Finding { property: "C09", what: "clean: mutation outside .ruler for an absent goal".into(), detail: m.join("; ") });
                }
            }
            return;
        },
    };
    let in_scope_targets = g.scope_targets(&scope);
    if or.c07
    {
        stats.obligations += 1;
        for b in cache_audit(post)
        {
            out.push(Finding { property: "C07", what: "cache entry not named after its content (after clean)".into(), detail: b });
        }
    }
    if or.c08
    {
        check_c08(o.sc, o.pre, post, &o.rr.log, "clean", stats, out);
    }
    if or.c09
    {
        check_c09(o.pre, post, &o.rr.log, &in_scope_targets, "clean", stats, out);
    }
    if or.c10
    {
        stats.obligations += 1;
        if o.rr.verdict != Verdict::Ok
        {
            out.push(Finding { property: "C10", what: "clean failed".into(), detail: format!("{:?}", o.rr.verdict) });
        }
        let cache: BTreeSet<Bytes> = cache_listing(post).into_iter().map(|(_n, b)| b).collect();
        for t in &in_scope_targets
        {
            if post.map.contains_key(t)
            {
                out.push(Finding { property: "C10", what: "in-scope target still in the workspace after clean".into(), detail: t.clone() });
            }
            if let Some(b) = o.pre.read(t)
            {
                if !cache.contains(&b)
                {
                    out.push(Finding { property: "C10", what: "content of a cleaned target is not in the cache".into(), detail: format!("{} {:?}", t, show(&b)) });
                }
            }
        }
    }
}

/// C10 probe: from `pre` (any reached state), for every goal pair (g, g'): clean(g) then build(g').
pub fn probe_c10(sc: &Scenario, rules: &RuleSet, pre: &Fs, clock: ClockModel, stats: &mut Stats, out: &mut Vec<(Vec<Op>, Finding)>)
{
    let rc = RunCfg::serial(clock);
    let g = Graph::new(rules);
    let or = Oracles::only("C10");
    // which scopes are up to date in `pre`?  (reference equality + ruler's own idempotence)
    let mut up_to_date: BTreeMap<Option<String>, bool> = BTreeMap::new();
    for goal in &sc.goals
    {
        let ok = match expected_verdict(rules, pre, goal)
        {
            Some((Verdict::Ok, scope, ev)) =>
            {
                let targets_ok = scope.iter().all(|r| rules[*r].sorted_targets().iter().all(|t|
                    match (pre.file(t), ev.values.get(t))
                    {
                        (Some(f), Some((b, x))) => f.data == *b && f.exec == *x,
                        _ => false,
                    }));
                if targets_ok
                {
                    let rr = run_build(pre, &rc, goal);
                    stats.probes += 1;
                    rr.verdict == Verdict::Ok && rr.log.cmds.is_empty() && outside_ruler_muts(&rr.log).is_empty()
                }
                else { false }
            },
            _ => false,
        };
        up_to_date.insert(goal.clone(), ok);
    }
    for gc in &sc.goals
    {
        let scope_c = match g.scope(gc) { Some(s) => s, None => continue };
        let rc_clean = run_clean(pre, &rc, gc);
        stats.probes += 1;
        let mut fs_out = vec![];
        check_clean(&CleanObs { sc, rules, pre, goal: gc, rr: &rc_clean }, &or, stats, &mut fs_out);
        for f in fs_out { out.push((vec![Op::Clean { goal: gc.clone() }], f)); }
        for gb in &sc.goals
        {
            let scope_b = match g.scope(gb) { Some(s) => s, None => continue };
            let union_goal_ok = up_to_date.get(gc).cloned().unwrap_or(false) && up_to_date.get(gb).cloned().unwrap_or(false);
            if !union_goal_ok { continue; }
            let rb = run_build(&rc_clean.fs, &rc, gb);
            stats.probes += 1;
            stats.obligations += 1;
            stats.nontrivial += 1;
            let ops = vec![Op::Clean { goal: gc.clone() }, Op::Build { goal: gb.clone() }];
            if rb.verdict != Verdict::Ok
            {
                out.push((ops.clone(), Finding { property: "C10", what: "build after clean of up-to-date targets failed".into(), detail: format!("{:?}", rb.verdict) }));
                continue;
            }
            let both: BTreeSet<usize> = scope_c.intersection(&scope_b).cloned().collect();
            for r in &both
            {
                for t in rules[*r].sorted_targets()
                {
                    let a = pre.file(&t);
                    let b = rb.fs.file(&t);
                    match (a, b)
                    {
                        (Some(x), Some(y)) if x.data == y.data && x.exec == y.exec => {},
                        (Some(x), Some(y)) if x.data == y.data =>
                        {
                            // one cache entry per content: a cleaned twin (same bytes, other permission) shares it
                            let twin = g.scope_targets(&scope_c).iter().any(|u| *u != t && pre.file(u).map(|f| f.data == x.data && f.exec != x.exec).unwrap_or(false));
                            let what = if twin { "target with a byte-identical cleaned twin of different permission came back with the wrong executable permission" }
                                       else { "target came back with the wrong executable permission" };
                            out.push((ops.clone(), Finding { property: "C10", what: what.into(), detail: format!("{}: exec {} -> {}", t, x.exec, y.exec) }));
                        },
                        _ =>
                        {
                            out.push((ops.clone(), Finding { property: "C10", what: "target not put back byte-identical after clean + build".into(),
                                detail: format!("{}: {:?} -> {:?}", t, a.map(|f| show(&f.data)), b.map(|f| show(&f.data))) }));
                        },
                    }
                }
            }
            // no command as long as the cleaned contents are pairwise different
            let cleaned: Vec<Bytes> = g.scope_targets(&scope_c).iter().filter_map(|t| pre.read(t)).collect();
            let distinct: BTreeSet<&Bytes> = cleaned.iter().collect();
            // cache entries that were already there with equal content do not matter; only duplicates among cleaned targets do
            if distinct.len() == cleaned.len()
            {
                for c in &rb.log.cmds
                {
                    if let Some(r) = rule_by_script(rules, &c.script)
                    {
                        if both.contains(&r)
                        {
                            out.push((ops.clone(), Finding { property: "C10", what: "a command ran although every cleaned target was recoverable".into(), detail: c.script.clone() }));
                        }
                    }
                }
            }
        }
    }
}

/// C17 oracle for one build transition (scenario with undeclared inputs).
pub fn check_c17(o: &BuildObs, stats: &mut Stats, out: &mut Vec<Finding>)
{
    let post = &o.rr.fs;
    let pre_hist = decode_history(o.pre);
    let post_hist = decode_history(post);
    let mut expected: Vec<Vec<String>> = vec![];
    let mut contradicted_rules = BTreeSet::new();
    for c in &o.rr.log.cmds
    {
        if c.codes.iter().any(|x| *x != 0) { continue; }
        let r = match rule_by_script(o.rules, &c.script) { Some(r) => r, None => continue };
        let rule = &o.rules[r];
        // sources hash as ruler computes it: sha256 of the concatenated source hashes in sorted-source order
        let srcs: Option<Vec<Bytes>> = rule.sorted_sources().iter().map(|s| post.read(s)).collect();
        let srcs = match srcs { Some(s) => s, None => continue };
        let mut h = refsha::Sha256::new();
        for s in &srcs { h.update(&refsha::sha256(s)); }
        let sources_ticket = h.finish();
        // the rule's history file is named by the rule ticket; find it via ruler's own identity function
        let ticket = crate::rule::Rule::new(rule.targets.clone(), rule.sources.clone(), rule.command_lines()).get_ticket().human_readable();
        let before = match pre_hist.get(&ticket) { Some(Some(m)) => m.get(&sources_ticket).cloned(), _ => None };
        if before.is_none()
        {
            // a first successful execution on these sources: whatever else happens in this build, its
            // outputs are remembered (builds of other rules are unaffected by a failure elsewhere)
            let now: Option<Vec<[u8; 32]>> = rule.sorted_targets().iter().map(|t| post.read(t).map(|b| refsha::sha256(&b))).collect();
            if let Some(now) = now
            {
                stats.obligations += 1;
                let after = match post_hist.get(&ticket) { Some(Some(m)) => m.get(&sources_ticket).cloned(), _ => None };
                if after.as_ref() != Some(&now)
                {
                    out.push(Finding { property: "C17", what: format!("the outputs of a rule that ran successfully were not recorded{}", if o.rr.verdict == Verdict::Ok { "" } else { " in a build that failed elsewhere" }),
                        detail: format!("rule {:?}, verdict {:?}", rule.targets, o.rr.verdict) });
                }
            }
        }
        if let Some(recorded) = before
        {
            stats.obligations += 1;
            let targets = rule.sorted_targets();
            let mut differing = vec![];
            for (i, t) in targets.iter().enumerate()
            {
                let now = post.read(t).map(|b| refsha::sha256(&b));
                if now.as_ref() != recorded.get(i)
                {
                    differing.push(t.clone());
                }
            }
            if !differing.is_empty()
            {
                stats.nontrivial += 1;
                expected.push(differing);
                contradicted_rules.insert(r);
                // record kept unchanged
                let after = match post_hist.get(&ticket) { Some(Some(m)) => m.get(&sources_ticket).cloned(), _ => None };
                if after.as_ref() != Some(&recorded)
                {
                    out.push(Finding { property: "C17", what: "the earlier record was changed by a contradicting re-execution".into(), detail: format!("rule {:?}", rule.targets) });
                }
            }
        }
    }
    let got: Vec<Vec<String>> = match &o.rr.verdict
    {
        Verdict::WorkErrors(es) => es.iter().filter_map(|e| if let WErr::Contradiction(p) = e { Some(p.clone()) } else { None }).collect(),
        _ => vec![],
    };
    let mut a = expected.clone(); a.sort();
    let mut b = got.clone(); b.sort();
    if a != b
    {
        out.push(Finding
        {
            property: "C17",
            what: if a.is_empty() { "contradiction reported although the re-execution reproduced the record".to_string() }
                  else if b.is_empty() { "re-execution produced different targets but no contradiction was reported".to_string() }
                  else { "contradiction names the wrong targets".to_string() },
            detail: format!("expected Contradiction{:?}, got {:?} (verdict {:?})", a, b, o.rr.verdict),
        });
    }
    // what the user reads names the differing targets too
    if a == b
    {
        for p in a.iter().flatten()
        {
            if !o.rr.error_text.contains(p.as_str())
            {
                out.push(Finding { property: "C17", what: "the contradiction message does not name a differing target".into(), detail: format!("{:?} not in {:?}", p, o.rr.error_text) });
            }
        }
    }
    // builds of other rules are unaffected: every rule that is not contradicted and not downstream of one
    // must have run at most once and, if its command ran without error, its record must now exist
    let g = Graph::new(o.rules);
    if let Some(scope) = g.scope(o.goal)
    {
        let mut blocked = contradicted_rules.clone();
        for r in &contradicted_rules { blocked.extend(g.dependents(*r)); }
        if !a.is_empty()
        {
            for r in scope.difference(&blocked)
            {
                // siblings: targets must exist after the build if all their leaves exist
                let rule = &o.rules[*r];
                let leaves_ok = rule.sources.iter().all(|s| g.producer.contains_key(s) || post.is_file(s));
                let ups_ok = rule.sources.iter().all(|s| match g.producer.get(s) { Some(p) => !blocked.contains(p), None => true });
                if leaves_ok && ups_ok
                {
                    for t in rule.sorted_targets()
                    {
                        if !post.is_file(&t)
                        {
                            out.push(Finding { property: "C17", what: "an unrelated rule was not built in a build that reported a contradiction".into(), detail: t });
                        }
                    }
                }
            }
        }
    }
}

// ---------------------------------------------------------------------------
// Transition function

pub struct Ctx<'a>
{
    pub sc: &'a Scenario,
    pub clock: ClockModel,
    pub or: &'a Oracles,
}

fn update_ghost(ghost: &mut BTreeMap<GhostKey, Vec<Bytes>>, rules: &RuleSet, rr: &RunResult)
{
    for c in &rr.log.cmds
    {
        if c.codes.iter().any(|x| *x != 0) { continue; }
        let r = match rule_by_script(rules, &c.script) { Some(r) => r, None => continue };
        let rule = &rules[r];
        let targets = rule.sorted_targets();
        let blamed = match &rr.verdict
        {
            Verdict::Ok => false,
            Verdict::WorkErrors(es) => es.iter().any(|e| match e
            {
                WErr::TargetFileNotGenerated(t) => targets.contains(t),
                WErr::Contradiction(ps) => ps.iter().any(|p| targets.contains(p)),
                WErr::Other(_) => true,
                _ => false,
            }),
            Verdict::Other(_) => true,
        };
        if blamed { continue; }
        let srcs: Option<Vec<Bytes>> = rule.sorted_sources().iter().map(|s| rr.fs.read(s)).collect();
        let outs: Option<Vec<Bytes>> = targets.iter().map(|t| rr.fs.read(t)).collect();
        if let (Some(s), Some(o)) = (srcs, outs)
        {
            ghost.entry((rule.identity(), s)).or_insert(o);
        }
    }
}

/// Applies one op.  Must run inside a controlled execution.
pub fn apply(ctx: &Ctx, st: &State, op: &Op, stats: &mut Stats, findings: &mut Vec<(Vec<Op>, Finding)>) -> State
{
    let sc = ctx.sc;
    let mut ns = st.clone();
    ns.path.push(op.clone());
    stats.transitions += 1;
    let rc = RunCfg::serial(ctx.clock);
    let each = |ns: &mut State, f: &dyn Fn(&mut Fs)|
    {
        f(&mut ns.fs);
        if let Some(b) = ns.fs_b.as_mut() { f(b); }
    };
    match op
    {
        Op::Edit { path, val } =>
        {
            let v = sc.edits.iter().find(|(p, _)| p == path).expect("edit path").1[*val].clone();
            each(&mut ns, &|fs| user_write(fs, path, v.clone()));
        },
        Op::RmLeaf { path } => each(&mut ns, &|fs| user_remove(fs, path)),
        Op::CorruptHistory { target } =>
        {
            let rules = &sc.variants[st.variant];
            if let Some(rule) = rules.iter().find(|r| r.targets.contains(target))
            {
                let ticket = crate::rule::Rule::new(rule.targets.clone(), rule.sources.clone(), rule.command_lines()).get_ticket().human_readable();
                let path = format!("{}/{}", HISTORY_DIR, ticket);
                each(&mut ns, &|fs| user_write(fs, &path, bytes("\u{1}damaged")));
            }
        },
        Op::CorruptTable => each(&mut ns, &|fs| user_write(fs, TABLE_FILE, bytes("\u{1}damaged"))),
        Op::Backdate { path, val } =>
        {
            // the file comes back with a modification time older than anything ruler has seen
            let v = sc.edits.iter().find(|(p, _)| p == path).expect("edit path").1[*val].clone();
            each(&mut ns, &|fs| { fs.tick(); fs.put(path, v.clone(), 1 + *val as u64, None); fs.tick(); });
        },
        Op::SetAside { path } => each(&mut ns, &|fs| { fs.tick(); let _ = fs.rename(path, &format!("{}.aside", path)); fs.tick(); }),
        Op::MoveBack { path } => each(&mut ns, &|fs| { fs.tick(); let _ = fs.rename(&format!("{}.aside", path), path); fs.tick(); }),
        Op::Tamper { path } => each(&mut ns, &|fs| user_write(fs, path, bytes(TAMPER_CONTENT))),
        Op::Delete { path } => each(&mut ns, &|fs| user_remove(fs, path)),
        Op::DropCache { name } => each(&mut ns, &|fs| user_remove(fs, &format!("{}/{}", CACHE_DIR, name))),
        Op::RmRuler => { each(&mut ns, &|fs| user_remove_tree(fs, RULER_DIR)); ns.ghost.clear(); },
        Op::RmHistory => { each(&mut ns, &|fs| user_remove_tree(fs, HISTORY_DIR)); ns.ghost.clear(); },
        Op::RmCache => each(&mut ns, &|fs| user_remove_tree(fs, CACHE_DIR)),
        Op::RmTable => each(&mut ns, &|fs| user_remove(fs, TABLE_FILE)),
        Op::Rules { k } =>
        {
            ns.variant = *k;
            each(&mut ns, &|fs| install_rules_spelled(fs, &sc.variants[*k], sc.flat_variants.contains(k)));
        },
        Op::Build { goal } =>
        {
            let rules = &sc.variants[st.variant];
            let rr = run_build(&st.fs, &rc, goal);
            stats.builds += 1;
            *stats.verdicts.entry(verdict_class(&rr.verdict)).or_insert(0) += 1;
            let mut fs_out = vec![];
            {
                let obs = BuildObs { sc, rules, pre: &st.fs, goal, rr: &rr, ghost: &st.ghost };
                check_build(&obs, ctx.or, stats, &mut fs_out);
                if ctx.or.c17 { check_c17(&obs, stats, &mut fs_out); }
            }
            if ctx.or.c02 && rr.verdict == Verdict::Ok && !sc.nondeterministic
            {
                // idempotence probe: the same build again runs nothing and touches nothing outside .ruler
                let again = run_build(&rr.fs, &rc, goal);
                stats.probes += 1;
                stats.obligations += 1;
                if again.verdict != Verdict::Ok || !again.log.cmds.is_empty()
                {
                    fs_out.push(Finding { property: "C02", what: "repeating a successful build with nothing changed ran a command or failed".into(),
                        detail: format!("verdict {:?}, commands {:?}", again.verdict, again.log.cmds.iter().map(|c| c.script.clone()).collect::<Vec<_>>()) });
                }
                let m = outside_ruler_muts(&again.log);
                if !m.is_empty()
                {
                    fs_out.push(Finding { property: "C02", what: "repeating a successful build with nothing changed modified files outside the ruler directory".into(), detail: m.join("; ") });
                }
            }
            if ctx.or.c18
            {
                if let Some(fb) = &st.fs_b
                {
                    let mut fb2 = fb.clone();
                    user_remove(&mut fb2, TABLE_FILE);
                    let rb = run_build(&fb2, &rc, goal);
                    stats.builds += 1;
                    stats.obligations += 1;
                    let wa = workspace_view(&rr.fs);
                    let wb = workspace_view(&rb.fs);
                    if rr.verdict != rb.verdict || wa != wb
                    {
                        stats.nontrivial += 1;
                        fs_out.push(Finding
                        {
                            property: "C18",
                            what: format!("with the file-state table: {}; with the table erased: {}{}", verdict_class(&rr.verdict), verdict_class(&rb.verdict),
                                if wa != wb { " (workspace contents differ)" } else { "" }),
                            detail: format!("with table: {:?} {:?}; without: {:?} {:?}", rr.verdict, wa, rb.verdict, wb),
                        });
                    }
                    ns.fs_b = Some(rb.fs);
                }
            }
            update_ghost(&mut ns.ghost, rules, &rr);
            for f in fs_out { findings.push((ns.path.clone(), f)); }
            ns.fs = rr.fs;
        },
        Op::Clean { goal } =>
        {
            let rules = &sc.variants[st.variant];
            let rr = run_clean(&st.fs, &rc, goal);
            stats.cleans += 1;
            let mut fs_out = vec![];
            check_clean(&CleanObs { sc, rules, pre: &st.fs, goal, rr: &rr }, ctx.or, stats, &mut fs_out);
            for f in fs_out { findings.push((ns.path.clone(), f)); }
            if let Some(fb) = &st.fs_b
            {
                let rb = run_clean(fb, &rc, goal);
                stats.cleans += 1;
                ns.fs_b = Some(rb.fs);
            }
            ns.fs = rr.fs;
        },
    }
    ns
}

// ---------------------------------------------------------------------------
// Search

pub struct HistCfg
{
    pub scenario: Scenario,
    pub clock: ClockModel,
    pub oracles: Oracles,
    pub depth: usize,
    pub paired: bool,
    pub use_ghost_in_key: bool,
    pub max_states: usize,
    pub deadline: Instant,
    pub threads: usize,
    /// run the C10 probes at every reached state
    pub c10_probes: bool,
    /// state key keeps the *order* of all timestamps (robust against code that compares
    /// timestamps with < or <=); false = only their equality partition (sound for code that
    /// tests equality only; smaller state space, lets small alphabets saturate)
    pub ordered_key: bool,
}

pub struct HistResult
{
    pub states: u64,
    pub stats: Stats,
    pub levels: Vec<u64>,
    pub depth_completed: usize,
    pub exhaustive_to_depth: bool,
    pub cap_hit: Option<String>,
    pub findings: Vec<(Vec<Op>, Finding)>,
    pub failures: Vec<(Vec<Op>, String)>,
    pub sample_paths: Vec<Vec<Op>>,
}

struct Shared
{
    /// debug (RVF_ABSCHECK): coarse key -> (fine key, path) of the first state stored under it, and
    /// pairs of paths whose states share the coarse key but differ in the fine key
    abs_first: Mutex<HashMap<[u8; 16], ([u8; 16], Vec<Op>)>>,
    abs_pairs: Mutex<Vec<(Vec<Op>, Vec<Op>)>>,
    seen: Vec<Mutex<HashSet<[u8; 16]>>>,
    next: Mutex<Vec<State>>,
    findings: Mutex<Vec<(Vec<Op>, Finding)>>,
    failures: Mutex<Vec<(Vec<Op>, String)>>,
    stats: Mutex<Stats>,
    stop: AtomicBool,
    count: AtomicUsize,
}

impl Shared
{
    fn insert(&self, k: [u8; 16]) -> bool
    {
        let shard = (k[0] as usize) % self.seen.len();
        self.seen[shard].lock().unwrap().insert(k)
    }
}

pub fn run_hist(cfg: &HistCfg) -> HistResult
{
    let shared = Arc::new(Shared
    {
        abs_first: Mutex::new(HashMap::new()),
        abs_pairs: Mutex::new(vec![]),
        seen: (0..64).map(|_| Mutex::new(HashSet::new())).collect(),
        next: Mutex::new(vec![]),
        findings: Mutex::new(vec![]),
        failures: Mutex::new(vec![]),
        stats: Mutex::new(Stats::default()),
        stop: AtomicBool::new(false),
        count: AtomicUsize::new(0),
    });
    let init = initial_state(&cfg.scenario, cfg.paired);
    shared.insert(init.key_ordered(cfg.use_ghost_in_key, cfg.ordered_key));
    shared.count.store(1, Ordering::SeqCst);
    let mut frontier = vec![init];
    let mut levels = vec![1u64];
    let mut depth_completed = 0;
    let mut cap_hit = None;
    let mut sample_paths: Vec<Vec<Op>> = vec![];
    // depth d: expand all states at distance d-1
    for d in 1..=cfg.depth + 1
    {
        let probes_only = d == cfg.depth + 1;
        if probes_only && !cfg.c10_probes
        {
            break;
        }
        if frontier.is_empty()
        {
            break;
        }
        let items = Arc::new(frontier);
        let idx = Arc::new(AtomicUsize::new(0));
        let mut handles = vec![];
        for _ in 0..cfg.threads.max(1)
        {
            let items = items.clone();
            let idx = idx.clone();
            let shared = shared.clone();
            let sc = cfg.scenario.clone();
            let clock = cfg.clock;
            let or = cfg.oracles.clone();
            let use_ghost = cfg.use_ghost_in_key;
            let deadline = cfg.deadline;
            let max_states = cfg.max_states;
            let c10 = cfg.c10_probes;
            let ordered = cfg.ordered_key;
            handles.push(std::thread::Builder::new().stack_size(16 << 20).spawn(move ||
            {
                expand_worker(items, idx, shared, sc, clock, or, use_ghost, deadline, max_states, c10, probes_only, ordered);
            }).unwrap());
        }
        for h in handles
        {
            if h.join().is_err()
            {
                shared.failures.lock().unwrap().push((vec![], "worker thread panicked outside a controlled execution".to_string()));
            }
        }
        if probes_only
        {
            break;
        }
        if shared.stop.load(Ordering::SeqCst)
        {
            cap_hit = Some(if Instant::now() >= cfg.deadline { "time cap".to_string() } else { "state cap".to_string() });
            break;
        }
        depth_completed = d;
        let next = std::mem::take(&mut *shared.next.lock().unwrap());
        if let Ok(f) = std::env::var("RVF_DUMPKEYS")
        {
            use std::io::Write;
            let mut lines: Vec<String> = next.iter().map(|s| format!("{} L{} {}", refsha::hex(&s.key_ordered(cfg.use_ghost_in_key, cfg.ordered_key)), d, ops_short(&s.path))).collect();
            lines.sort();
            if let Ok(mut fh) = std::fs::OpenOptions::new().create(true).append(true).open(&f) { for l in lines { let _ = writeln!(fh, "{}", l); } }
        }
        levels.push(next.len() as u64);
        for s in next.iter().take(3)
        {
            if sample_paths.len() < 12 { sample_paths.push(s.path.clone()); }
        }
        frontier = next;
    }
    if std::env::var("RVF_ABSCHECK").is_ok()
    {
        let pairs = std::mem::take(&mut *shared.abs_pairs.lock().unwrap());
        eprintln!("ABSCHECK {}: {} pairs of merged states with different timestamp order", cfg.scenario.name, pairs.len());
        let mut shown = 0;
        for (pa, pb) in pairs
        {
            let (_f, _x, sa) = replay_history(&cfg.scenario, cfg.clock, &cfg.oracles, cfg.paired, false, &pa);
            let (_f, _x, sb) = replay_history(&cfg.scenario, cfg.clock, &cfg.oracles, cfg.paired, false, &pb);
            let oa = enabled_ops(&cfg.scenario, &sa);
            let ob = enabled_ops(&cfg.scenario, &sb);
            if oa != ob { eprintln!("ABSCHECK enabled ops differ: [{}] vs [{}]", ops_short(&pa), ops_short(&pb)); continue; }
            for op in oa
            {
                let mut a2 = pa.clone(); a2.push(op.clone());
                let mut b2 = pb.clone(); b2.push(op.clone());
                let (_f, _x, na) = replay_history(&cfg.scenario, cfg.clock, &cfg.oracles, cfg.paired, false, &a2);
                let (_f, _x, nb) = replay_history(&cfg.scenario, cfg.clock, &cfg.oracles, cfg.paired, false, &b2);
                if na.key_ordered(cfg.use_ghost_in_key, false) != nb.key_ordered(cfg.use_ghost_in_key, false) && shown < 3
                {
                    shown += 1;
                    eprintln!("ABSCHECK successor differs after {}:\n  A [{}]\n  B [{}]\n  A' {:?}\n  B' {:?}", op.short(), ops_short(&pa), ops_short(&pb),
                        crate::world::workspace_view(&na.fs), crate::world::workspace_view(&nb.fs));
                }
            }
        }
    }
    let stats = shared.stats.lock().unwrap().clone();
    let findings = std::mem::take(&mut *shared.findings.lock().unwrap());
    let failures = std::mem::take(&mut *shared.failures.lock().unwrap());
    HistResult
    {
        states: shared.count.load(Ordering::SeqCst) as u64,
        stats,
        levels,
        depth_completed,
        exhaustive_to_depth: cap_hit.is_none(),
        cap_hit,
        findings,
        failures,
        sample_paths,
    }
}

fn expand_worker(items: Arc<Vec<State>>, idx: Arc<AtomicUsize>, shared: Arc<Shared>, sc: Scenario, clock: ClockModel, or: Oracles,
                 use_ghost: bool, deadline: Instant, max_states: usize, c10: bool, probes_only: bool, ordered: bool)
{
    use std::cell::RefCell;
    use std::rc::Rc;
    // (state index, first op index to run) of the job in flight, and the op being applied
    let inflight: Rc<RefCell<Option<(usize, usize)>>> = Rc::new(RefCell::new(None));
    let cur_op: Rc<RefCell<usize>> = Rc::new(RefCell::new(0));
    let retry: Rc<RefCell<Option<(usize, usize)>>> = Rc::new(RefCell::new(None));
    let sc = Arc::new(sc);
    let or = Arc::new(or);
    sched::pump(
    {
        let inflight = inflight.clone();
        let cur_op = cur_op.clone();
        let retry = retry.clone();
        move |prev: Option<Outcome>|
        {
            if let Some(o) = prev
            {
                if let Some(msg) = o.failure
                {
                    // the op in flight panicked / deadlocked: report it and resume after it
                    if let Some((si, _)) = *inflight.borrow()
                    {
                        let opi = *cur_op.borrow();
                        let st = &items[si];
                        let ops = enabled_ops(&sc, st);
                        let mut path = st.path.clone();
                        if opi < ops.len() { path.push(ops[opi].clone()); }
                        shared.failures.lock().unwrap().push((path, msg));
                        *retry.borrow_mut() = Some((si, opi + 1));
                    }
                }
            }
            let (si, from) = match retry.borrow_mut().take()
            {
                Some(x) => x,
                None =>
                {
                    if shared.stop.load(Ordering::SeqCst)
                    {
                        return None;
                    }
                    if Instant::now() >= deadline || shared.count.load(Ordering::SeqCst) >= max_states
                    {
                        shared.stop.store(true, Ordering::SeqCst);
                        return None;
                    }
                    let i = idx.fetch_add(1, Ordering::SeqCst);
                    if i >= items.len()
                    {
                        return None;
                    }
                    (i, 0)
                },
            };
            *inflight.borrow_mut() = Some((si, from));
            let items = items.clone();
            let shared = shared.clone();
            let sc = sc.clone();
            let or = or.clone();
            let cur_op = cur_op.clone();
            Some(Job
            {
                prefix: vec![],
                full: false,
                body: Box::new(move ||
                {
                    let st = &items[si];
                    let ctx = Ctx { sc: &sc, clock, or: &or };
                    let mut stats = Stats::default();
                    let mut findings = vec![];
                    if c10 && from == 0
                    {
                        *cur_op.borrow_mut() = usize::MAX - 1;
                        let mut fs = vec![];
                        let _w = crate::watch::item(|| (format!("scenario {} under {:?}: clean / build probes after [{}]", sc.name, clock, ops_short(&st.path)),
                            json!({"engine": "hist", "scenario": sc.name, "clock": format!("{:?}", clock), "paired": false, "ops": st.path, "what": "does not return"})));
                        probe_c10(&sc, &sc.variants[st.variant], &st.fs, clock, &mut stats, &mut fs);
                        for (ops, mut f) in fs
                        {
                            f.detail = format!("probe [{}]: {}", ops_short(&ops), f.detail);
                            findings.push((st.path.clone(), f));
                        }
                    }
                    if !probes_only
                    {
                        let ops = enabled_ops(&sc, st);
                        for (oi, op) in ops.iter().enumerate().skip(from)
                        {
                            *cur_op.borrow_mut() = oi;
                            let _w = crate::watch::item(||
                            {
                                let mut p = st.path.clone();
                                p.push(op.clone());
                                (format!("scenario {} under {:?}: [{}]", sc.name, clock, ops_short(&p)),
                                 json!({"engine": "hist", "scenario": sc.name, "clock": format!("{:?}", clock), "paired": st.fs_b.is_some(), "ops": p, "what": "does not return"}))
                            });
                            let ns = apply(&ctx, st, op, &mut stats, &mut findings);
                            if !ordered && std::env::var("RVF_ABSCHECK").is_ok()
                            {
                                let coarse = ns.key_ordered(use_ghost, false);
                                let fine = ns.key_ordered(use_ghost, true);
                                let mut m = shared.abs_first.lock().unwrap();
                                match m.get(&coarse)
                                {
                                    Some((f0, p0)) => if *f0 != fine { let mut ap = shared.abs_pairs.lock().unwrap(); if ap.len() < 30000 { ap.push((p0.clone(), ns.path.clone())); } },
                                    None => { m.insert(coarse, (fine, ns.path.clone())); },
                                }
                            }
                            if shared.insert(ns.key_ordered(use_ghost, ordered))
                            {
                                shared.count.fetch_add(1, Ordering::SeqCst);
                                shared.next.lock().unwrap().push(ns);
                            }
                        }
                    }
                    shared.stats.lock().unwrap().merge(&stats);
                    if !findings.is_empty()
                    {
                        let mut f = shared.findings.lock().unwrap();
                        if f.len() < 10_000 { f.extend(findings); }
                    }
                }),
            })
        }
    });
}

// ---------------------------------------------------------------------------
// Replay of one history (no explorer)

pub fn replay_history(sc: &Scenario, clock: ClockModel, or: &Oracles, paired: bool, c10: bool, ops: &[Op]) -> (Vec<(Vec<Op>, Finding)>, Option<String>, State)
{
    let sc2 = sc.clone();
    let or2 = or.clone();
    let ops2: Vec<Op> = ops.to_vec();
    let (r, outcome) = sched::run_once(vec![], move ||
    {
        let ctx = Ctx { sc: &sc2, clock, or: &or2 };
        let mut st = initial_state(&sc2, paired);
        let mut stats = Stats::default();
        let mut findings = vec![];
        for op in &ops2
        {
            // C10 probe ops are recorded as trailing Clean/Build ops: they replay as ordinary transitions
            st = apply(&ctx, &st, op, &mut stats, &mut findings);
            if std::env::var("RVF_TRACE").is_ok()
            {
                let files: Vec<String> = st.fs.map.iter().filter_map(|(p, n)| if let crate::memsys::Node::File(f) = n { if p.starts_with(".ruler/history") || p == TABLE_FILE { None } else { Some(format!("{}={:?}@{}", p, show(&f.data), f.mtime)) } } else { None }).collect();
                let table = crate::world::decode_table(&st.fs).map(|t| t.map(|m| m.iter().map(|(p, f)| format!("{}=({}..,{})", p, &refsha::encode62(&f.ticket.sha)[..6], f.timestamp)).collect::<Vec<_>>()));
                println!("TRACE after {}: {}\n      table: {:?}", op.short(), files.join(" "), table);
                println!("      keys: coarse {} fine {}", refsha::hex(&st.key_ordered(false, false)), refsha::hex(&st.key_ordered(false, true)));
                if let Some(b) = &st.fs_b
                {
                    let files: Vec<String> = b.map.iter().filter_map(|(p, n)| if let crate::memsys::Node::File(f) = n { if p.starts_with(".ruler/history") || p == TABLE_FILE || p == "build.rules" { None } else { Some(format!("{}={:?}@{}", p, show(&f.data), f.mtime)) } } else { None }).collect();
                    let table = crate::world::decode_table(b).map(|t| t.map(|m| m.iter().map(|(p, f)| format!("{}=({}..,{})", p, &refsha::encode62(&f.ticket.sha)[..6], f.timestamp)).collect::<Vec<_>>()));
                    println!("      world B: {}\n      table B: {:?}", files.join(" "), table);
                }
            }
        }
        if c10
        {
            let mut fs = vec![];
            probe_c10(&sc2, &sc2.variants[st.variant], &st.fs, clock, &mut stats, &mut fs);
            for (o, mut f) in fs
            {
                f.detail = format!("probe [{}]: {}", ops_short(&o), f.detail);
                findings.push((st.path.clone(), f));
            }
        }
        (findings, st)
    });
    match r
    {
        Some((f, st)) => (f, outcome.failure, st),
        None => (vec![], outcome.failure.or(Some("no result".to_string())), initial_state(sc, paired)),
    }
}

pub fn finding_signature(sc: &Scenario, clock: ClockModel, f: &Finding) -> String
{
    format!("{}:hist:{}:{:?}:{}", f.property, sc.name, clock, f.what)
}

pub fn to_violation(sc: &Scenario, clock: ClockModel, paired: bool, path: &[Op], f: &Finding) -> Violation
{
    Violation
    {
        property: f.property.to_string(),
        signature: finding_signature(sc, clock, f),
        summary: format!("{} after [{}]: {}", f.what, ops_short(path), f.detail),
        replay: json!({
            "engine": "hist",
            "scenario": sc.name,
            "clock": format!("{:?}", clock),
            "paired": paired,
            "ops": path,
            "what": f.what,
        }),
    }
}

pub fn clock_from_str(s: &str) -> ClockModel
{
    if s == "Coarse" { ClockModel::Coarse } else { ClockModel::Strict }
}

pub fn stats_json(r: &HistResult) -> Value
{
    json!({
        "levels": r.levels,
        "builds": r.stats.builds,
        "cleans": r.stats.cleans,
        "probes": r.stats.probes,
        "commands_executed": r.stats.commands,
        "verdict_classes": r.stats.verdicts,
        "banner_counts": r.stats.banners,
        "obligations": r.stats.obligations,
        "nontrivial_obligations": r.stats.nontrivial,
        "depth_completed": r.depth_completed,
        "cap_hit": r.cap_hit,
    })
}
