//! MemSystem: an instrumented in-memory implementation of ruler's `System` trait.
//!
//! It is the environment model of every engine: file system, clock (mtimes) and
//! command execution.  It owns all nondeterminism except thread scheduling, which
//! `crate::sched` owns; the two meet in `maybe_yield`, which turns System calls on
//! *shared* paths into scheduling points.
use std::collections::{BTreeMap, BTreeSet};
use std::fmt;
use std::io;
use std::sync::{Arc, Mutex};
use std::time::{Duration, SystemTime};

use crate::system::{CommandLineOutput, CommandScript, System, SystemError};

pub type Bytes = Arc<Vec<u8>>;

pub fn bytes(s: &str) -> Bytes
{
    Arc::new(s.as_bytes().to_vec())
}

#[derive(Clone, Debug, PartialEq, Eq)]
pub struct FileNode
{
    pub id: u64,
    pub data: Bytes,
    pub mtime: u64,
    pub exec: bool,
}

#[derive(Clone, Debug, PartialEq, Eq)]
pub enum Node
{
    Dir,
    File(FileNode),
}

/// The whole file-system state, including the clock, so that a clone is a
/// self-contained snapshot.
#[derive(Clone, Debug)]
pub struct Fs
{
    pub map: BTreeMap<String, Node>,
    pub now: u64,
    pub next_id: u64,
}

fn parent_of(path: &str) -> &str
{
    match path.rfind('/')
    {
        Some(i) => &path[..i],
        None => "",
    }
}

impl Fs
{
    pub fn new() -> Fs
    {
        Fs { map: BTreeMap::new(), now: 1000, next_id: 1 }
    }

    pub fn is_dir(&self, path: &str) -> bool
    {
        path == "" || matches!(self.map.get(path), Some(Node::Dir))
    }

    pub fn is_file(&self, path: &str) -> bool
    {
        matches!(self.map.get(path), Some(Node::File(_)))
    }

    pub fn file(&self, path: &str) -> Option<&FileNode>
    {
        match self.map.get(path)
        {
            Some(Node::File(f)) => Some(f),
            _ => None,
        }
    }

    pub fn read(&self, path: &str) -> Option<Bytes>
    {
        self.file(path).map(|f| f.data.clone())
    }

    pub fn tick(&mut self) -> u64
    {
        self.now += 1;
        self.now
    }

    /// Create or truncate a file.  Err if the parent is missing or `path` is a directory.
    pub fn create(&mut self, path: &str, mtime: u64) -> Result<u64, SystemError>
    {
        if path == ""
        {
            return Err(SystemError::PathEmpty);
        }
        if !self.is_dir(parent_of(path))
        {
            return Err(SystemError::NotFound);
        }
        match self.map.get_mut(path)
        {
            Some(Node::Dir) => Err(SystemError::CreateFileOverExistingDirectory),
            Some(Node::File(f)) =>
            {
                // truncate in place: same inode, permissions kept
                f.data = Arc::new(vec![]);
                f.mtime = mtime;
                Ok(f.id)
            },
            None =>
            {
                let id = self.next_id;
                self.next_id += 1;
                self.map.insert(path.to_string(), Node::File(FileNode { id, data: Arc::new(vec![]), mtime, exec: false }));
                Ok(id)
            },
        }
    }

    pub fn find_by_id(&mut self, id: u64) -> Option<&mut FileNode>
    {
        for (_p, n) in self.map.iter_mut()
        {
            if let Node::File(f) = n
            {
                if f.id == id
                {
                    return Some(f);
                }
            }
        }
        None
    }

    /// User-level write (create + full content).
    pub fn put(&mut self, path: &str, data: Bytes, mtime: u64, exec: Option<bool>)
    {
        let mut cur = String::new();
        let comps: Vec<&str> = path.split('/').collect();
        for c in &comps[..comps.len()-1]
        {
            if !cur.is_empty() { cur.push('/'); }
            cur.push_str(c);
            self.map.entry(cur.clone()).or_insert(Node::Dir);
        }
        let id = match self.map.get(path)
        {
            Some(Node::File(f)) => f.id,
            _ => { let id = self.next_id; self.next_id += 1; id },
        };
        let old_exec = self.file(path).map(|f| f.exec).unwrap_or(false);
        self.map.insert(path.to_string(), Node::File(FileNode { id, data, mtime, exec: exec.unwrap_or(old_exec) }));
    }

    pub fn remove(&mut self, path: &str) -> bool
    {
        self.map.remove(path).is_some()
    }

    /// Remove `path` and everything below it.
    pub fn remove_tree(&mut self, path: &str)
    {
        let prefix = format!("{}/", path);
        let keys: Vec<String> = self.map.keys().filter(|k| *k == path || k.starts_with(&prefix)).cloned().collect();
        for k in keys
        {
            self.map.remove(&k);
        }
    }

    pub fn rename(&mut self, from: &str, to: &str) -> Result<(), SystemError>
    {
        if from == "" || to == ""
        {
            return Err(SystemError::PathEmpty);
        }
        let node = match self.map.get(from)
        {
            Some(n) => n.clone(),
            None => return Err(SystemError::RenameFromNonExistent),
        };
        if !self.is_dir(parent_of(to))
        {
            return Err(SystemError::RenameToNonExistent);
        }
        if from == to
        {
            return Ok(());
        }
        match (&node, self.map.get(to))
        {
            (Node::File(_), Some(Node::Dir)) => return Err(SystemError::Weird),
            (Node::Dir, Some(Node::File(_))) => return Err(SystemError::Weird),
            _ => {},
        }
        match node
        {
            Node::File(_) =>
            {
                self.map.remove(from);
                self.map.insert(to.to_string(), node);
            },
            Node::Dir =>
            {
                let prefix = format!("{}/", from);
                let keys: Vec<String> = self.map.keys().filter(|k| k.starts_with(&prefix)).cloned().collect();
                self.remove_tree(to);
                self.map.remove(from);
                self.map.insert(to.to_string(), Node::Dir);
                for k in keys
                {
                    let n = self.map.remove(&k).unwrap();
                    self.map.insert(format!("{}/{}", to, &k[prefix.len()..]), n);
                }
            },
        }
        Ok(())
    }

    /// Direct children, as full paths, sorted (the contract of `System::list_dir`).
    pub fn list_dir(&self, path: &str) -> Result<Vec<String>, SystemError>
    {
        if !self.is_dir(path)
        {
            return Err(if self.is_file(path) { SystemError::ExpectedDirFoundFile } else { SystemError::NotFound });
        }
        let prefix = if path == "" { String::new() } else { format!("{}/", path) };
        let mut out = vec![];
        for k in self.map.keys()
        {
            if k.starts_with(&prefix) && k.len() > prefix.len() && !k[prefix.len()..].contains('/')
            {
                out.push(k.clone());
            }
        }
        out.sort();
        Ok(out)
    }

    /// All regular files whose path starts with `prefix/`.
    pub fn files_under(&self, dir: &str) -> Vec<(&String, &FileNode)>
    {
        let prefix = format!("{}/", dir);
        self.map.iter().filter_map(|(k, n)| match n
        {
            Node::File(f) if k.starts_with(&prefix) => Some((k, f)),
            _ => None,
        }).collect()
    }
}

#[derive(Clone, Copy, Debug, PartialEq, Eq)]
pub enum ClockModel
{
    /// every create and every write gets a fresh tick
    Strict,
    /// one tick per user action and per ruler invocation
    Coarse,
}

#[derive(Clone, Debug)]
pub enum MutKind
{
    /// `prev`: content that was at the path before the truncate (None = new file)
    CreateFile { prev: Option<Bytes> },
    Write { len: usize },
    /// `moved`: content of the moved file (None = directory); `dest_prev`: content overwritten at `to`
    Rename { to: String, moved: Option<Bytes>, dest_prev: Option<Bytes> },
    SetExec(bool),
    CreateDir,
    Remove { prev: Option<Bytes> },
}

#[derive(Clone, Debug)]
pub struct Mutation
{
    pub task: usize,
    pub in_cmd: bool,
    pub path: String,
    pub kind: MutKind,
    pub ok: bool,
}

#[derive(Clone, Debug)]
pub struct CmdRec
{
    pub task: usize,
    pub script: String,
    pub codes: Vec<i32>,
    pub first_mut: usize,
}

#[derive(Clone)]
pub struct Snap
{
    /// index of the mutation after which the snapshot was taken
    pub after_mut: usize,
    /// Some(k): only the first k bytes of that write reached the disk
    pub torn: Option<usize>,
    pub in_cmd: bool,
    /// the mutation, e.g. "write .ruler/history/<name>"
    pub desc: String,
    pub fs: Fs,
}

/// path with content-hash names abstracted, so that descriptions are stable
pub fn class_of(path: &str) -> String
{
    if let Some(rest) = path.strip_prefix(".ruler/history/")
    {
        return format!(".ruler/history/<rule>{}", if rest.len() > 43 { &rest[43..] } else { "" });
    }
    if let Some(rest) = path.strip_prefix(".ruler/cache/")
    {
        return format!(".ruler/cache/<hash>{}", if rest.len() > 43 { &rest[43..] } else { "" });
    }
    path.to_string()
}

pub fn describe_mut(m: &Mutation) -> String
{
    match &m.kind
    {
        MutKind::CreateFile { .. } => format!("create_file {}", class_of(&m.path)),
        MutKind::Write { .. } => format!("write {}", class_of(&m.path)),
        MutKind::Rename { to, .. } => format!("rename {} -> {}", class_of(&m.path), class_of(to)),
        MutKind::SetExec(x) => format!("set_is_executable({}) {}", x, class_of(&m.path)),
        MutKind::CreateDir => format!("create_dir {}", class_of(&m.path)),
        MutKind::Remove { .. } => format!("remove {}", class_of(&m.path)),
    }
}

pub type CmdMonitor = Arc<dyn Fn(&Fs, &str) -> Option<String> + Send + Sync>;

#[derive(Clone)]
pub struct Cfg
{
    pub clock: ClockModel,
    /// yield to the scheduler before System calls on shared paths
    pub yields: bool,
    pub cache_prefix: String,
    pub shared: Arc<BTreeSet<String>>,
    pub log: bool,
    pub snapshots: bool,
    pub track_access: bool,
    pub read_chunk: Option<usize>,
    pub cmd_monitor: Option<CmdMonitor>,
}

impl Cfg
{
    pub fn plain(clock: ClockModel) -> Cfg
    {
        Cfg
        {
            clock,
            yields: false,
            cache_prefix: ".ruler/cache/".to_string(),
            shared: Arc::new(BTreeSet::new()),
            log: true,
            snapshots: false,
            track_access: false,
            read_chunk: None,
            cmd_monitor: None,
        }
    }
}

#[derive(Default, Clone)]
pub struct Log
{
    pub muts: Vec<Mutation>,
    pub cmds: Vec<CmdRec>,
    pub snaps: Vec<Snap>,
    pub monitor_violations: Vec<String>,
    /// path -> (mutated, tasks that touched it); only for non-shared paths
    pub access: BTreeMap<String, (bool, BTreeSet<usize>)>,
    pub sys_calls: u64,
}

pub struct Inner
{
    pub fs: Fs,
    pub cfg: Cfg,
    pub log: Log,
    pub in_cmd: bool,
}

#[derive(Clone)]
pub struct MemSystem
{
    inner: Arc<Mutex<Inner>>,
}

pub const NO_TASK: usize = usize::MAX;

pub fn current_task() -> usize
{
    crate::sched::current_task_id().unwrap_or(NO_TASK)
}

/// One clock tick is 0.4 s of file-system time: consecutive ticks cross second boundaries and the
/// sub-second part repeats every five ticks, so both halves of ruler's conversion of a `SystemTime`
/// (whole seconds, sub-second microseconds) matter for telling modification times apart.
pub const TICK_MICROS: u64 = 400_000;
pub fn stamp_micros(tick: u64) -> u64 { tick * TICK_MICROS }

fn is_shared(cfg: &Cfg, path: &str) -> bool
{
    path.starts_with(&cfg.cache_prefix) || cfg.shared.contains(path)
}

impl Inner
{
    fn stamp(&mut self) -> u64
    {
        match self.cfg.clock
        {
            ClockModel::Strict => self.fs.tick(),
            ClockModel::Coarse => self.fs.now,
        }
    }

    fn touch(&mut self, path: &str, mutating: bool)
    {
        self.log.sys_calls += 1;
        if self.cfg.track_access && !is_shared(&self.cfg, path)
        {
            let t = current_task();
            let e = self.log.access.entry(path.to_string()).or_insert((false, BTreeSet::new()));
            e.0 |= mutating;
            e.1.insert(t);
        }
    }

    fn record(&mut self, path: &str, kind: MutKind, ok: bool)
    {
        if self.cfg.log
        {
            let in_cmd = self.in_cmd;
            self.log.muts.push(Mutation { task: current_task(), in_cmd, path: path.to_string(), kind, ok });
            if self.cfg.snapshots && ok
            {
                let idx = self.log.muts.len() - 1;
                let desc = describe_mut(&self.log.muts[idx]);
                self.log.snaps.push(Snap { after_mut: idx, torn: None, in_cmd, desc, fs: self.fs.clone() });
            }
        }
    }

    fn do_create(&mut self, path: &str) -> Result<u64, SystemError>
    {
        self.touch(path, true);
        let prev = self.fs.read(path);
        let stamp = self.stamp();
        let r = self.fs.create(path, stamp);
        self.record(path, MutKind::CreateFile { prev }, r.is_ok());
        r
    }

    fn do_write(&mut self, id: u64, pos: usize, buf: &[u8]) -> usize
    {
        let stamp = self.stamp();
        let path = self.fs.map.iter().find_map(|(p, n)| match n { Node::File(f) if f.id == id => Some(p.clone()), _ => None });
        let path = match path
        {
            Some(p) => p,
            None => return buf.len(), // unlinked while open: bytes go nowhere
        };
        self.touch(&path, true);
        if self.cfg.log && self.cfg.snapshots && buf.len() > 1
        {
            // torn variants: only a strict prefix of this write reached the disk
            let n = buf.len();
            let ks: Vec<usize> = if n <= 64 { (1..n).collect() } else { vec![1, n / 2, n - 1] };
            for k in ks
            {
                let mut fs = self.fs.clone();
                if let Some(f) = fs.find_by_id(id)
                {
                    let mut d = (*f.data).clone();
                    d.truncate(pos.min(d.len()));
                    d.resize(pos, 0);
                    d.extend_from_slice(&buf[..k]);
                    f.data = Arc::new(d);
                    f.mtime = stamp;
                }
                let idx = self.log.muts.len();
                let in_cmd = self.in_cmd;
                self.log.snaps.push(Snap { after_mut: idx, torn: Some(k), in_cmd, desc: format!("torn write ({} of {} bytes) {}", k, n, class_of(&path)), fs });
            }
        }
        if let Some(f) = self.fs.find_by_id(id)
        {
            let mut d = (*f.data).clone();
            if pos > d.len() { d.resize(pos, 0); }
            d.truncate(pos);
            d.extend_from_slice(buf);
            f.data = Arc::new(d);
            f.mtime = stamp;
        }
        self.record(&path, MutKind::Write { len: buf.len() }, true);
        buf.len()
    }

    fn do_rename(&mut self, from: &str, to: &str) -> Result<(), SystemError>
    {
        self.touch(from, true);
        self.touch(to, true);
        let moved = self.fs.read(from);
        let dest_prev = self.fs.read(to);
        let r = self.fs.rename(from, to);
        self.record(from, MutKind::Rename { to: to.to_string(), moved, dest_prev }, r.is_ok());
        r
    }

    fn do_set_exec(&mut self, path: &str, exec: bool) -> Result<(), SystemError>
    {
        self.touch(path, true);
        let r = match self.fs.map.get_mut(path)
        {
            Some(Node::File(f)) => { f.exec = exec; Ok(()) },
            Some(Node::Dir) => Ok(()),
            None => Err(SystemError::MetadataNotFound),
        };
        self.record(path, MutKind::SetExec(exec), r.is_ok());
        r
    }

    fn do_remove(&mut self, path: &str) -> bool
    {
        self.touch(path, true);
        let prev = self.fs.read(path);
        let ok = self.fs.is_file(path) && self.fs.remove(path);
        self.record(path, MutKind::Remove { prev }, ok);
        ok
    }

    /// One line of the mini-shell.  Every line is also valid /bin/sh with the same meaning.
    fn run_line(&mut self, line: &str) -> i32
    {
        let w: Vec<&str> = line.split_whitespace().collect();
        if w.is_empty()
        {
            return 0;
        }
        match w[0]
        {
            "true" => 0,
            "false" => 1,
            // test -f F && <line>
            "test" if w.len() > 4 && w[1] == "-f" && w[3] == "&&" =>
            {
                self.touch(w[2], false);
                if !self.fs.is_file(w[2]) { return 1; }
                let rest = w[4..].join(" ");
                self.run_line(&rest)
            },
            // `kill -KILL $$`: the shell running the line is killed by a signal: no exit code at all
            "kill" => -9,
            "cat" =>
            {
                // cat A B ... > T    (sh: T is created/truncated first, then the inputs are appended)
                let gt = match w.iter().position(|x| *x == ">")
                {
                    Some(i) if i + 2 == w.len() => i,
                    _ => return 2,
                };
                let out = w[gt + 1];
                let id = match self.do_create(out)
                {
                    Ok(id) => id,
                    Err(_) => return 1,
                };
                let mut code = 0;
                let mut data = vec![];
                for src in &w[1..gt]
                {
                    self.touch(src, false);
                    match self.fs.read(src)
                    {
                        Some(b) => data.extend_from_slice(&b),
                        None => code = 1,
                    }
                }
                if !data.is_empty()
                {
                    self.do_write(id, 0, &data);
                }
                code
            },
            "cp" if w.len() == 4 && w[1] == "-p" =>
            {
                // cp -p A B : data, modification time and mode of A
                self.touch(w[2], false);
                let src = match self.fs.file(w[2]) { Some(f) => f.clone(), None => return 1 };
                let id = match self.do_create(w[3]) { Ok(id) => id, Err(_) => return 1 };
                if !src.data.is_empty() { self.do_write(id, 0, &src.data); }
                if let Some(f) = self.fs.find_by_id(id) { f.mtime = src.mtime; f.exec = src.exec; }
                0
            },
            "cp" =>
            {
                if w.len() != 3 { return 2; }
                self.touch(w[1], false);
                let (data, exec) = match self.fs.file(w[1])
                {
                    Some(f) => (f.data.clone(), f.exec),
                    None => return 1,
                };
                let existed = self.fs.is_file(w[2]);
                let id = match self.do_create(w[2])
                {
                    Ok(id) => id,
                    Err(_) => return 1,
                };
                if !data.is_empty()
                {
                    self.do_write(id, 0, &data);
                }
                if !existed && exec
                {
                    let _ = self.do_set_exec(w[2], true);
                }
                0
            },
            "chmod" =>
            {
                if w.len() != 3 { return 2; }
                let exec = match w[1] { "+x" => true, "-x" => false, _ => return 2 };
                match self.do_set_exec(w[2], exec)
                {
                    Ok(()) => 0,
                    Err(_) => 1,
                }
            },
            "rm" =>
            {
                // rm -f T
                if w.len() != 3 || w[1] != "-f" { return 2; }
                self.do_remove(w[2]);
                0
            },
            _ => 127,
        }
    }
}

/// Declare the operation about to be performed and yield to the scheduler: every
/// System call is exactly one scheduling point when `cfg.yields` is on.
fn point(what: &'static str, reads: Vec<String>, writes: Vec<String>)
{
    if crate::sched::in_execution()
    {
        crate::sched::declare(crate::sched::OpDesc::Fs { reads, writes, what });
        shuttle::thread::yield_now();
    }
}

impl MemSystem
{
    pub fn new(fs: Fs, cfg: Cfg) -> MemSystem
    {
        MemSystem { inner: Arc::new(Mutex::new(Inner { fs, cfg, log: Log::default(), in_cmd: false })) }
    }

    pub fn with<R>(&self, f: impl FnOnce(&mut Inner) -> R) -> R
    {
        let mut g = match self.inner.lock()
        {
            Ok(g) => g,
            Err(p) => p.into_inner(),
        };
        f(&mut g)
    }

    pub fn snapshot(&self) -> Fs
    {
        self.with(|i| i.fs.clone())
    }

    pub fn take_log(&self) -> Log
    {
        self.with(|i| std::mem::take(&mut i.log))
    }

    fn yields(&self) -> bool
    {
        self.with(|i| i.cfg.yields)
    }

    fn rd(&self, what: &'static str, path: &str)
    {
        if self.yields() { point(what, vec![path.to_string()], vec![]); }
    }

    fn wr(&self, what: &'static str, path: &str)
    {
        if self.yields() { point(what, vec![], vec![path.to_string()]); }
    }
}

/// Footprint of one mini-shell script (conservative: every named file).
pub fn script_footprint(lines: &[String]) -> (Vec<String>, Vec<String>)
{
    let mut reads = vec![];
    let mut writes = vec![];
    for line in lines
    {
        let mut w: Vec<&str> = line.split_whitespace().collect();
        if w.len() > 4 && w[0] == "test" && w[3] == "&&" { reads.push(w[2].to_string()); w = w[4..].to_vec(); }
        if w.is_empty() { continue; }
        match w[0]
        {
            "cat" =>
            {
                let gt = w.iter().position(|x| *x == ">").unwrap_or(w.len());
                for x in &w[1..gt] { reads.push(x.to_string()); }
                for x in w.iter().skip(gt + 1) { writes.push(x.to_string()); }
            },
            "cp" =>
            {
                if w.len() == 3 { reads.push(w[1].to_string()); writes.push(w[2].to_string()); }
                if w.len() == 4 { reads.push(w[2].to_string()); writes.push(w[3].to_string()); }
            },
            "chmod" | "rm" =>
            {
                if let Some(x) = w.last() { writes.push(x.to_string()); }
            },
            _ => {},
        }
    }
    (reads, writes)
}

pub struct MemFile
{
    sys: MemSystem,
    mode: FileMode,
}

enum FileMode
{
    Read { data: Bytes, pos: usize, chunk: Option<usize> },
    Write { id: u64, pos: usize },
}

impl fmt::Debug for MemFile
{
    fn fmt(&self, f: &mut fmt::Formatter) -> fmt::Result
    {
        write!(f, "MemFile")
    }
}

impl io::Read for MemFile
{
    fn read(&mut self, buf: &mut [u8]) -> io::Result<usize>
    {
        match &mut self.mode
        {
            FileMode::Read { data, pos, chunk } =>
            {
                let mut n = (data.len() - *pos).min(buf.len());
                if let Some(c) = chunk
                {
                    n = n.min(*c);
                }
                buf[..n].copy_from_slice(&data[*pos..*pos + n]);
                *pos += n;
                Ok(n)
            },
            FileMode::Write { .. } => Err(io::Error::new(io::ErrorKind::Other, "file not open for reading")),
        }
    }
}

impl io::Write for MemFile
{
    fn write(&mut self, buf: &[u8]) -> io::Result<usize>
    {
        match &mut self.mode
        {
            FileMode::Write { id, pos } =>
            {
                if buf.is_empty()
                {
                    return Ok(0);
                }
                let (id, p) = (*id, *pos);
                if self.sys.yields()
                {
                    let path = self.sys.with(|i| i.fs.map.iter().find_map(|(p, n)| match n { Node::File(f) if f.id == id => Some(p.clone()), _ => None }));
                    if let Some(path) = path { point("write", vec![], vec![path]); }
                }
                let n = self.sys.with(|i| i.do_write(id, p, buf));
                *pos += n;
                Ok(n)
            },
            FileMode::Read { .. } => Err(io::Error::new(io::ErrorKind::Other, "file not open for writing")),
        }
    }

    fn flush(&mut self) -> io::Result<()>
    {
        Ok(())
    }
}

impl System for MemSystem
{
    type File = MemFile;

    fn open(&self, path: &str) -> Result<Self::File, SystemError>
    {
        self.rd("open", path);
        self.with(|i|
        {
            i.touch(path, false);
            match i.fs.map.get(path)
            {
                Some(Node::File(f)) => Ok(MemFile
                {
                    sys: self.clone(),
                    mode: FileMode::Read { data: f.data.clone(), pos: 0, chunk: i.cfg.read_chunk },
                }),
                Some(Node::Dir) => Err(SystemError::DirectoryInPlaceOfFile(path.to_string())),
                None => Err(SystemError::NotFound),
            }
        })
    }

    fn create_file(&mut self, path: &str) -> Result<Self::File, SystemError>
    {
        self.wr("create_file", path);
        let id = self.with(|i| i.do_create(path))?;
        Ok(MemFile { sys: self.clone(), mode: FileMode::Write { id, pos: 0 } })
    }

    fn create_dir(&mut self, path: &str) -> Result<(), SystemError>
    {
        self.wr("create_dir", path);
        self.with(|i|
        {
            i.touch(path, true);
            let r =
            if path == ""
            {
                Err(SystemError::PathEmpty)
            }
            else if !i.fs.is_dir(parent_of(path))
            {
                Err(SystemError::NotFound)
            }
            else if i.fs.is_file(path)
            {
                Err(SystemError::CreateDirectoryOverExistingFile)
            }
            else if i.fs.is_dir(path)
            {
                Err(SystemError::Weird)
            }
            else
            {
                i.fs.map.insert(path.to_string(), Node::Dir);
                Ok(())
            };
            i.record(path, MutKind::CreateDir, r.is_ok());
            r
        })
    }

    fn is_dir(&self, path: &str) -> bool
    {
        self.rd("is_dir", path);
        self.with(|i| { i.touch(path, false); i.fs.is_dir(path) })
    }

    fn is_file(&self, path: &str) -> bool
    {
        self.rd("is_file", path);
        self.with(|i| { i.touch(path, false); i.fs.is_file(path) })
    }

    #[cfg(sys_remove_file)]
    fn remove_file(&mut self, path: &str) -> Result<(), SystemError>
    {
        self.wr("remove_file", path);
        self.with(|i|
        {
            if i.fs.is_dir(path) { return Err(SystemError::RemoveFileFoundDir); }
            if i.do_remove(path) { Ok(()) } else { Err(SystemError::RemoveNonExistentFile) }
        })
    }

    #[cfg(sys_remove_dir)]
    fn remove_dir(&mut self, path: &str) -> Result<(), SystemError>
    {
        if self.yields() { point("remove_dir", vec![], vec![path.to_string(), format!("{}/", path)]); }
        self.with(|i|
        {
            i.touch(path, true);
            if i.fs.is_file(path) { return Err(SystemError::ExpectedDirFoundFile); }
            if !i.fs.is_dir(path) || path == "" { return Err(SystemError::RemoveNonExistentDir); }
            i.fs.remove_tree(path);
            i.record(path, MutKind::Remove { prev: None }, true);
            Ok(())
        })
    }

    fn list_dir(&self, path: &str) -> Result<Vec<String>, SystemError>
    {
        // a listing depends on every descendant: declared as the directory prefix "path/"
        if self.yields() { point("list_dir", vec![path.to_string(), format!("{}/", path)], vec![]); }
        self.with(|i| { i.touch(path, false); i.fs.list_dir(path) })
    }

    fn rename(&mut self, from: &str, to: &str) -> Result<(), SystemError>
    {
        if self.yields()
        {
            let mut w = vec![from.to_string(), to.to_string()];
            if self.with(|i| i.fs.is_dir(from))
            {
                w.push(format!("{}/", from));
                w.push(format!("{}/", to));
            }
            point("rename", vec![], w);
        }
        self.with(|i| i.do_rename(from, to))
    }

    fn get_modified(&self, path: &str) -> Result<SystemTime, SystemError>
    {
        self.rd("get_modified", path);
        self.with(|i|
        {
            i.touch(path, false);
            match i.fs.map.get(path)
            {
                Some(Node::File(f)) => Ok(SystemTime::UNIX_EPOCH + Duration::from_micros(stamp_micros(f.mtime))),
                Some(Node::Dir) => Ok(SystemTime::UNIX_EPOCH + Duration::from_micros(1)),
                None => Err(SystemError::MetadataNotFound),
            }
        })
    }

    fn is_executable(&self, path: &str) -> Result<bool, SystemError>
    {
        self.rd("is_executable", path);
        self.with(|i|
        {
            i.touch(path, false);
            match i.fs.map.get(path)
            {
                Some(Node::File(f)) => Ok(f.exec),
                Some(Node::Dir) => Ok(true),
                None => Err(SystemError::MetadataNotFound),
            }
        })
    }

    fn set_is_executable(&mut self, path: &str, executable: bool) -> Result<(), SystemError>
    {
        self.wr("set_is_executable", path);
        self.with(|i| i.do_set_exec(path, executable))
    }

    fn execute_command(&mut self, command_script: CommandScript) -> Vec<Result<CommandLineOutput, SystemError>>
    {
        // One scheduling point before the command starts; the command itself is atomic
        // (commands of different rules touch disjoint files, apart from reading sources that
        // must already be final — which is exactly what the C03 monitor checks at this instant).
        if self.yields()
        {
            let (r, w) = script_footprint(&command_script.lines);
            point("command", r, w);
        }
        let text = format!("{}", command_script);
        self.with(|i|
        {
            if let Some(mon) = i.cfg.cmd_monitor.clone()
            {
                if let Some(v) = mon(&i.fs, &text)
                {
                    i.log.monitor_violations.push(v);
                }
            }
            i.in_cmd = true;
            let first_mut = i.log.muts.len();
            let mut out = vec![];
            let mut codes = vec![];
            for line in command_script.lines.iter()
            {
                let code = i.run_line(line);
                codes.push(code);
                // `true <tag>` / `false <tag>` also talk: what a command writes to its standard streams is
                // passed on by ruler and must not change what it does
                let w: Vec<&str> = line.split_whitespace().collect();
                let (so, se) = match w.first().cloned()
                {
                    Some("true") if w.len() > 1 => (format!("note: {}\n", w[1]), String::new()),
                    Some("false") if w.len() > 1 => (String::new(), format!("error: {} \u{fffd}\n", w[1])),
                    _ => (String::new(), String::new()),
                };
                out.push(Ok(CommandLineOutput
                {
                    out: so,
                    err: se,
                    code: if code == -9 { None } else { Some(code) },
                    success: code == 0,
                }));
            }
            i.in_cmd = false;
            if i.cfg.log
            {
                i.log.cmds.push(CmdRec { task: current_task(), script: text, codes, first_mut });
            }
            out
        })
    }
}
