//! Structured scenarios and the reference model ("what running the rules' commands
//! from scratch, in dependency order, on the current sources would produce").
//!
//! Independent of ruler's parser and sorter: a scenario is a *structured* list of
//! rules; the rules text given to ruler is rendered from it.
use std::collections::{BTreeMap, BTreeSet};
use std::sync::Arc;

use crate::memsys::{Bytes, Fs};

#[derive(Clone, Debug, PartialEq, Eq, Hash, PartialOrd, Ord)]
pub enum Line
{
    /// `cat inputs... > out`
    Cat { inputs: Vec<String>, out: String },
    /// `chmod +x path`
    ChmodX(String),
    /// `cp -p from to` (keeps the modification time and the mode of `from`)
    CpP { from: String, to: String },
    /// `true <tag>` (the tag only makes the script text unique per rule)
    True(String),
    /// `false <tag>`
    False(String),
    /// `kill -KILL $$ <tag>`: the line's shell dies from a signal (no exit code)
    Kill(String),
    /// `test -f guard && cat inputs... > out`: fails WITHOUT touching `out` when `guard` is missing
    GuardedCat { guard: String, inputs: Vec<String>, out: String },
}

impl Line
{
    pub fn render(&self) -> String
    {
        match self
        {
            Line::Cat { inputs, out } => format!("cat {} > {}", inputs.join(" "), out),
            Line::ChmodX(p) => format!("chmod +x {}", p),
            Line::CpP { from, to } => format!("cp -p {} {}", from, to),
            Line::True(tag) => format!("true {}", tag),
            Line::False(tag) => format!("false {}", tag),
            Line::Kill(_tag) => "kill -KILL $$".to_string(),
            Line::GuardedCat { guard, inputs, out } => format!("test -f {} && cat {} > {}", guard, inputs.join(" "), out),
        }
    }
}

#[derive(Clone, Debug, PartialEq, Eq, Hash, PartialOrd, Ord)]
pub struct RuleSpec
{
    /// as written in the rules file (ruler sorts them)
    pub targets: Vec<String>,
    pub sources: Vec<String>,
    pub lines: Vec<Line>,
}

pub type RuleSet = Vec<RuleSpec>;

impl RuleSpec
{
    pub fn sorted_targets(&self) -> Vec<String>
    {
        let mut t = self.targets.clone();
        t.sort();
        t.dedup();
        t
    }

    pub fn sorted_sources(&self) -> Vec<String>
    {
        let mut s = self.sources.clone();
        s.sort();
        s.dedup();
        s
    }

    /// The command exactly as ruler's parser sees it: one entry per rules-file line.
    pub fn command_lines(&self) -> Vec<String>
    {
        let mut out = vec![];
        for (i, l) in self.lines.iter().enumerate()
        {
            if i > 0
            {
                out.push(";".to_string());
            }
            out.push(l.render());
        }
        out
    }

    /// The script text ruler hands to `System::execute_command` (lines joined with "; ").
    pub fn script_text(&self) -> String
    {
        self.lines.iter().map(|l| l.render()).collect::<Vec<_>>().join("; ")
    }

    /// Canonical identity per C13: set of targets, set of sources, command lines in order.
    pub fn identity(&self) -> String
    {
        format!("T={:?}|S={:?}|C={:?}", self.sorted_targets(), self.sorted_sources(), self.command_lines())
    }

    pub fn render(&self) -> String
    {
        self.render_spelled(false)
    }

    /// `flat`: write `dir/file` on one line; otherwise as a tab-indented bundle.  Both spell the
    /// same rule (same identity), but the parser yields the targets in a different order.
    pub fn render_spelled(&self, flat: bool) -> String
    {
        let mut s = String::new();
        for t in &self.targets
        {
            match t.find('/')
            {
                Some(i) if !flat => { s.push_str(&t[..i]); s.push_str("\n\t"); s.push_str(&t[i + 1..]); s.push('\n'); },
                _ => { s.push_str(t); s.push('\n'); },
            }
        }
        s.push_str(":\n");
        // a source listed twice is spelled once flat and once as a bundle: the parser merges plain
        // repeats, but keeps a path that is written both ways — the rule then really has it twice
        let mut seen: BTreeSet<&String> = BTreeSet::new();
        for t in &self.sources
        {
            match t.find('/')
            {
                Some(i) if !seen.insert(t) => { s.push_str(&t[..i]); s.push_str("\n\t"); s.push_str(&t[i + 1..]); s.push('\n'); },
                _ => { seen.insert(t); s.push_str(t); s.push('\n'); },
            }
        }
        s.push_str(":\n");
        for t in self.command_lines() { s.push_str(&t); s.push('\n'); }
        s.push_str(":\n");
        s
    }
}

pub fn render_rules(rules: &RuleSet) -> String
{
    rules.iter().map(|r| r.render()).collect::<Vec<_>>().join("\n")
}

pub fn render_rules_spelled(rules: &RuleSet, flat: bool) -> String
{
    rules.iter().map(|r| r.render_spelled(flat)).collect::<Vec<_>>().join("\n")
}

/// Convenience constructors --------------------------------------------------

pub fn s(x: &str) -> String { x.to_string() }
pub fn sv(xs: &[&str]) -> Vec<String> { xs.iter().map(|x| x.to_string()).collect() }

/// single-target concatenation rule
pub fn cat_rule(target: &str, sources: &[&str]) -> RuleSpec
{
    RuleSpec
    {
        targets: sv(&[target]),
        sources: sv(sources),
        lines: vec![Line::Cat { inputs: sv(sources), out: s(target) }],
    }
}

/// multi-target rule: target i is the concatenation of `parts[i]`
pub fn multi_rule(targets: &[&str], sources: &[&str], parts: &[&[&str]]) -> RuleSpec
{
    RuleSpec
    {
        targets: sv(targets),
        sources: sv(sources),
        lines: targets.iter().zip(parts.iter()).map(|(t, p)| Line::Cat { inputs: sv(p), out: s(t) }).collect(),
    }
}

pub fn fail_rule(target: &str, sources: &[&str]) -> RuleSpec
{
    RuleSpec { targets: sv(&[target]), sources: sv(sources), lines: vec![Line::False(s(target))] }
}

pub fn noout_rule(target: &str, sources: &[&str]) -> RuleSpec
{
    RuleSpec { targets: sv(&[target]), sources: sv(sources), lines: vec![Line::True(s(target))] }
}

// ---------------------------------------------------------------------------

#[derive(Clone, Debug, PartialEq, Eq, PartialOrd, Ord)]
pub enum RuleStatus
{
    Ok,
    /// command exits non-zero
    CommandErrored,
    /// command succeeds but this target (first in sorted order) is not produced
    NotGenerated(String),
    /// a prerequisite failed / is missing
    Cancelled,
}

#[derive(Clone, Debug)]
pub struct Eval
{
    pub status: Vec<RuleStatus>,
    /// expected bytes + exec bit of every target of every rule with status Ok
    pub values: BTreeMap<String, (Bytes, bool)>,
    /// leaves (non-target sources) that do not exist
    pub missing_leaves: BTreeSet<String>,
}

pub struct Graph<'a>
{
    pub rules: &'a RuleSet,
    pub producer: BTreeMap<String, usize>,
}

impl<'a> Graph<'a>
{
    pub fn new(rules: &'a RuleSet) -> Graph<'a>
    {
        let mut producer = BTreeMap::new();
        for (i, r) in rules.iter().enumerate()
        {
            for t in &r.targets
            {
                producer.insert(t.clone(), i);
            }
        }
        Graph { rules, producer }
    }

    /// Rules in scope of a goal: the goal's rule and all transitive prerequisites
    /// (None = all rules).  Computed by naive recursion, not by ruler's sorter.
    pub fn scope(&self, goal: &Option<String>) -> Option<BTreeSet<usize>>
    {
        match goal
        {
            None => Some((0..self.rules.len()).collect()),
            Some(g) =>
            {
                let root = *self.producer.get(g)?;
                let mut seen = BTreeSet::new();
                let mut stack = vec![root];
                while let Some(r) = stack.pop()
                {
                    if seen.insert(r)
                    {
                        for s in &self.rules[r].sources
                        {
                            if let Some(p) = self.producer.get(s)
                            {
                                stack.push(*p);
                            }
                        }
                    }
                }
                Some(seen)
            },
        }
    }

    pub fn scope_targets(&self, scope: &BTreeSet<usize>) -> BTreeSet<String>
    {
        scope.iter().flat_map(|r| self.rules[*r].targets.iter().cloned()).collect()
    }

    pub fn scope_leaves(&self, scope: &BTreeSet<usize>) -> BTreeSet<String>
    {
        scope.iter().flat_map(|r| self.rules[*r].sources.iter().cloned()).filter(|s| !self.producer.contains_key(s)).collect()
    }

    /// rules that depend (transitively) on rule r
    pub fn dependents(&self, r: usize) -> BTreeSet<usize>
    {
        let mut out = BTreeSet::new();
        let mut changed = true;
        while changed
        {
            changed = false;
            for (i, rule) in self.rules.iter().enumerate()
            {
                if out.contains(&i) { continue; }
                let dep = rule.sources.iter().any(|s| match self.producer.get(s)
                {
                    Some(p) => *p == r || out.contains(p),
                    None => false,
                });
                if dep
                {
                    out.insert(i);
                    changed = true;
                }
            }
        }
        out
    }

    pub fn all_targets(&self) -> BTreeSet<String>
    {
        self.producer.keys().cloned().collect()
    }
}

/// From-scratch evaluation of `rules` on the non-target files of `fs`.
pub fn eval(rules: &RuleSet, fs: &Fs) -> Eval
{
    let g = Graph::new(rules);
    let n = rules.len();
    let mut status: Vec<Option<RuleStatus>> = vec![None; n];
    let mut values: BTreeMap<String, (Bytes, bool)> = BTreeMap::new();
    let mut missing = BTreeSet::new();

    fn go(i: usize, g: &Graph, fs: &Fs, status: &mut Vec<Option<RuleStatus>>, values: &mut BTreeMap<String, (Bytes, bool)>,
          missing: &mut BTreeSet<String>, depth: usize)
    {
        if status[i].is_some() { return; }
        assert!(depth <= g.rules.len(), "scenario rule graph has a cycle");
        let rule = &g.rules[i];
        let mut cancelled = false;
        for s in &rule.sources
        {
            match g.producer.get(s)
            {
                Some(p) =>
                {
                    go(*p, g, fs, status, values, missing, depth + 1);
                    if status[*p] != Some(RuleStatus::Ok) { cancelled = true; }
                },
                None =>
                {
                    // a declared source may be a directory (its hash covers every name and content below it)
                    if !fs.is_file(s) && !fs.is_dir(s)
                    {
                        missing.insert(s.clone());
                        cancelled = true;
                    }
                },
            }
        }
        if cancelled
        {
            status[i] = Some(RuleStatus::Cancelled);
            return;
        }
        // run the command on a scratch view: own targets start absent
        let mut produced: BTreeMap<String, (Vec<u8>, bool)> = BTreeMap::new();
        let mut errored = false;
        for line in &rule.lines
        {
            match line
            {
                Line::True(_) => {},
                Line::False(_) | Line::Kill(_) => errored = true,
                Line::ChmodX(p) =>
                {
                    match produced.get_mut(p)
                    {
                        Some(e) => e.1 = true,
                        None => errored = true,
                    }
                },
                Line::CpP { from, to } =>
                {
                    match fs.file(from)
                    {
                        Some(f) if !g.producer.contains_key(from) => { produced.insert(to.clone(), ((*f.data).clone(), f.exec)); },
                        _ => errored = true,
                    }
                },
                Line::GuardedCat { guard, .. } if !fs.is_file(guard) => errored = true,
                Line::Cat { inputs, out } | Line::GuardedCat { inputs, out, .. } =>
                {
                    let mut data = vec![];
                    for inp in inputs
                    {
                        if let Some((b, _)) = produced.get(inp)
                        {
                            let b = b.clone();
                            data.extend_from_slice(&b);
                        }
                        else if let Some((b, _)) = values.get(inp)
                        {
                            data.extend_from_slice(b);
                        }
                        else if g.producer.contains_key(inp)
                        {
                            // reads another rule's target without declaring it: not used in scenarios
                            errored = true;
                        }
                        else
                        {
                            match fs.read(inp)
                            {
                                Some(b) => data.extend_from_slice(&b),
                                None => errored = true,
                            }
                        }
                    }
                    let exec = produced.get(out).map(|e| e.1).unwrap_or(false);
                    produced.insert(out.clone(), (data, exec));
                },
            }
        }
        if errored
        {
            status[i] = Some(RuleStatus::CommandErrored);
            return;
        }
        for t in rule.sorted_targets()
        {
            if !produced.contains_key(&t)
            {
                status[i] = Some(RuleStatus::NotGenerated(t));
                return;
            }
        }
        for (t, (d, x)) in produced
        {
            values.insert(t, (Arc::new(d), x));
        }
        status[i] = Some(RuleStatus::Ok);
    }

    for i in 0..n
    {
        go(i, &g, fs, &mut status, &mut values, &mut missing, 0);
    }
    Eval { status: status.into_iter().map(|s| s.unwrap()).collect(), values, missing_leaves: missing }
}
