#!/bin/bash
# usage: tools/thorough_all.sh [ids...] — runs the thorough tier with a frozen copy of the harness binary
# (/verif/.build/rvf-frozen, copy it after a build) and writes the evidence to evidence-thorough/,
# so that quick runs and edits of the harness can go on meanwhile.  /repo must not change while it runs.
IDS="$@"; [ -z "$IDS" ] && IDS="C01 C02 C03 C04 C05 C06 C07 C08 C09 C10 C11 C12 C13 C14 C15 C16 C17 C18 C19 C20"
cd /verif
for id in $IDS; do
  RVF_EVIDENCE_DIR=/verif/evidence-thorough /verif/.build/rvf-frozen check $id --tier thorough 2>/dev/null | grep -E "^(VIOLATION|KNOWN-FINDING|C[0-9][0-9] \[)|signature:"
  echo "exit=$? $id"
done
