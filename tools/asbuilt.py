#!/usr/bin/env python3
"""Regenerates the numeric columns of the as-built table in DESIGN.md from the evidence
files: quick numbers from /verif/evidence, thorough numbers from /verif/evidence-thorough
(copies of the evidence written by the thorough commands)."""
import json, os, re, sys
def brief(path):
    if not os.path.exists(path): return "—"
    e = json.load(open(path)); c = e["coverage"]
    parts = []
    for k, label in [("states", "states"), ("transitions", "transitions"), ("schedules", "schedules"), ("evaluations", "evaluations"), ("real_fs_replays", "real-binary replays"), ("requests", "requests")]:
        if k in c and c[k]:
            v = c[k]
            parts.append(("%.1f M" % (v / 1e6) if v >= 1e6 else "%d" % v) + " " + label)
    if "max_depth" in c: parts.append("D ≤ %s" % c["max_depth"])
    parts.append("%.0f s" % e["wall_s"])
    if c.get("exhaustive") is False: parts.append("a cap was hit")
    return ", ".join(parts)
rows = []
for i in range(1, 21):
    pid = "C%02d" % i
    rows.append((pid, brief("/verif/evidence/%s.json" % pid), brief("/verif/evidence-thorough/%s.json" % pid)))
out = ["| id | quick tier (from evidence/) | thorough tier (from evidence-thorough/) |", "|----|----|----|"]
out += ["| %s | %s | %s |" % r for r in rows]
table = "\n".join(out)
p = "/verif/DESIGN.md"
s = open(p).read()
b, e = "<!-- ASBUILT-NUMBERS-BEGIN -->", "<!-- ASBUILT-NUMBERS-END -->"
if b in s:
    s = s[:s.index(b) + len(b)] + "\n" + table + "\n" + s[s.index(e):]
    open(p, "w").write(s)
print(table)
