#!/bin/bash
# usage: tools/seed_eval.sh <ID> [checks...]   — confirm a seeded change delivered in /tmp/seed/<ID>-out
# (suite passes with it, demo fails with it and passes without it) in the scratch worktree
# /tmp/seed/<ID>, then run the given checks (default: all) against /repo with the patch applied.
ID=$1; shift
W=/tmp/seed/$ID; O=/tmp/seed/$ID-out
set -u
cd $W || exit 2
git checkout -q -- . ; git clean -fdq src 2>/dev/null
echo "== [$ID] confirm in scratch worktree"
git apply --check $O/patch.diff || { echo "patch does not apply"; exit 2; }
git apply $O/patch.diff
SUITE=$(CARGO_NET_OFFLINE=true cargo test --offline 2>&1 | grep "test result" | head -1)
echo "suite with patch: $SUITE"
if [ -f $O/demo.diff ]; then
  git apply $O/demo.diff || { echo "demo does not apply on patched tree"; }
  WITH=$(CARGO_NET_OFFLINE=true cargo test --offline 2>&1 | grep "test result" | head -1)
  echo "suite+demo with patch: $WITH"
  git checkout -q -- . ; git clean -fdq src 2>/dev/null
  git apply $O/demo.diff
  WITHOUT=$(CARGO_NET_OFFLINE=true cargo test --offline 2>&1 | grep "test result" | head -1)
  echo "suite+demo without patch: $WITHOUT"
elif [ -f $O/demo.sh ]; then
  CARGO_NET_OFFLINE=true cargo build --offline >/dev/null 2>&1
  bash $O/demo.sh ${DEMO_ARG:-$W} >/tmp/seed/$ID-demo-with.log 2>&1; echo "demo.sh with patch: exit $?"
  git checkout -q -- . ; git clean -fdq src 2>/dev/null
  CARGO_NET_OFFLINE=true cargo build --offline >/dev/null 2>&1
  bash $O/demo.sh ${DEMO_ARG:-$W} >/tmp/seed/$ID-demo-without.log 2>&1; echo "demo.sh without patch: exit $?"
fi
git checkout -q -- . ; git clean -fdq src 2>/dev/null
echo "== [$ID] run checks against /repo + patch"
cd /repo && git status --short | grep -q . && { echo "/repo not clean"; exit 2; }
git apply $O/patch.diff || exit 2
CHECKS="$@"
[ -z "$CHECKS" ] && CHECKS="C01 C02 C03 C04 C05 C06 C07 C08 C09 C10 C11 C12 C13 C14 C15 C16 C17 C18 C19 C20"
cd /verif
for c in $CHECKS; do
  OUT=$(./check $c --tier quick 2>/dev/null); RC=$?
  N=$(echo "$OUT" | grep -c "^VIOLATION")
  echo "$c exit=$RC violations=$N $(echo "$OUT" | grep -m1 'signature:' | cut -c1-220)"
done
git -C /repo checkout -- .
git -C /repo status --short | head -3
# restore evidence written while the patch was applied
git -C /verif checkout -- evidence 2>/dev/null
# rebuild the harness from the restored tree so that no binary built from patched sources is left behind
(cd /verif/harness && CARGO_NET_OFFLINE=true cargo build --release --offline >/dev/null 2>&1)
